#!/usr/bin/env python3
"""Markdown table of what the committed quick evidence covers (from evidence/*.json)."""
import glob, json, os
root = os.path.dirname(os.path.dirname(os.path.abspath(__file__)))
print("| check | tier | scenarios | states | transitions | traces vs impl | non-trivial | outcome classes | goals reached | exhaustive | wall s |")
print("|---|---|---|---|---|---|---|---|---|---|---|")
for p in sorted(glob.glob(os.path.join(root, "evidence", "C*.json"))):
    e = json.load(open(p)); c = e["coverage"]
    print("| {} | {} | {} | {} | {} | {} | {} | {} | {}/{} | {} | {} |".format(
        e["property_id"], e["tier"], c["evaluations"], c["states"], c["transitions"], c["traces_validated_against_impl"], c["distinct_nontrivial"],
        len(c.get("outcome_classes", {})), sum(1 for v in c.get("coverage_goals", {}).values() if v), len(c.get("coverage_goals", {})),
        c.get("exhaustive"), e["wall_s"]))
