#!/usr/bin/env python3
"""Hand-written property-breaking changes (DESIGN section 7). Writes mutants/<name>.diff against /repo HEAD."""
import difflib
import os
import sys

REPO = "/repo"
OUT = os.path.join(os.path.dirname(os.path.dirname(os.path.abspath(__file__))), "mutants")
M = []


def m(name, props, path, old, new, note=""):
    M.append(dict(name=name, props=props, path=path, old=old, new=new, note=note))


A = "moclo/moclo/core/_assembly.py"
MOD = "moclo/moclo/core/modules.py"
VEC = "moclo/moclo/core/vectors.py"
REC = "moclo/moclo/record.py"
RX = "moclo/moclo/regex.py"
ST = "moclo/moclo/core/_structured.py"
PT = "moclo/moclo/core/parts.py"
UT = "moclo/moclo/core/_utils.py"
RB = "moclo/moclo/registry/base.py"

m("c01-module-target-drops-leading-overhang", ["C01", "C04"], MOD,
  "            start, end = self._match.span(1)[0], self._match.span(2)[1]\n        return add_as_source",
  "            start, end = self._match.span(2)[0], self._match.span(2)[1]\n        return add_as_source")
m("c01-vector-target-off-by-one", ["C01", "C04"], VEC,
  "(self.record << start)[end - start :])", "(self.record << start)[end - start + 1 :])")
m("c02-search-loses-last-start", ["C02", "C16"], RX,
  "for i in range(pos, min(len(string), endpos)):", "for i in range(pos, min(len(string) - 1, endpos)):")
m("c02-window-one-short", ["C02", "C16"], RX,
  "match = self.regex.match(data, i, i + len(string))", "match = self.regex.match(data, i, i + len(string) - 1)")
m("c03-no-revcomp-screen", ["C03"], A,
  "            if m is not None and m is not modmap[overhang]:", "            if False and m is not None:")
m("c03-get-instead-of-pop", ["C03", "C01"], A,
  "                module = modmap.pop(overhang_next)", "                module = modmap[overhang_next]")
m("c03-warn-only-when-more-than-one-unused", ["C03"], A,
  "        if modmap:\n            warnings.warn", "        if len(modmap) > 1:\n            warnings.warn")
m("c04-ecoflex-device-vector-overhang-wrong-side", ["C04", "C11"], "moclo-ecoflex/moclo/kits/ecoflex.py",
  '''            "NNNN"  # Device overhang (start)
            "(NNNN)"  # Vector overhang (start)''',
  '''            "(NNNN)"  # Device overhang (start)
            "NNNN"  # Vector overhang (start)''')
m("c05-characterize-skips-validation-for-concrete-root", ["C05"], PT,
  "        for subclass in classes:\n            entity = subclass(record)\n            if entity.is_valid():",
  "        for subclass in classes:\n            entity = subclass(record)\n            if entity.is_valid() or subclass is cls:")
m("c05-part-vector-ignores-upsig", ["C05"], PT,
  '                    up.replace(upsite, ")({})".format(upsig)),', '                    up.replace(upsite, ")({})".format("N" * len(upsig))),')
m("c06-cache-keyed-by-class-name", ["C06"], ST,
  '''        if "_regex" not in cls.__dict__ or cls._regex is None:
            cls._regex = DNARegex(cls.structure())
        return cls._regex''',
  '''        key = cls.__name__
        if key not in _REGEX_CACHE:
            _REGEX_CACHE[key] = DNARegex(cls.structure())
        return _REGEX_CACHE[key]''', note="needs module-level dict")
m("c07-restore-not-in-finally", ["C07"], A,
  '''        try:
            assembly = self._generate_assembly(modmap)
            self._annotate_assembly(assembly)
            self._ref_citations(assembly)
        finally:
            for elem in self.elements:
                self._ref_citations(elem.record)''',
  '''        assembly = self._generate_assembly(modmap)
        self._annotate_assembly(assembly)
        self._ref_citations(assembly)
        for elem in self.elements:
            self._ref_citations(elem.record)''')
m("c07-restore-modules-only", ["C07", "C10"], A,
  '''        finally:
            for elem in self.elements:
                self._ref_citations(elem.record)''',
  '''        finally:
            for elem in self.modules:
                self._ref_citations(elem.record)''')
m("c08-rshift-end-strictly-greater", ["C08", "C13"], REC,
  "                    if part.end >= len(newseq) and part.start >= len(newseq):",
  "                    if part.end > len(newseq) and part.start > len(newseq):")
m("c09-source-feature-one-short", ["C09"], UT,
  "    location = location or FeatureLocation(0, len(dst_record))", "    location = location or FeatureLocation(0, len(dst_record) - 1)")
m("c09-comment-omits-later-modules", ["C09"], A,
  '"Modules: {}".format(", ".join(mod.record.id for mod in self.modules)),', '"Modules: {}".format(", ".join(mod.record.id for mod in self.modules[:1])),')
m("c10-citation-index-zero-based", ["C10", "C07"], A,
  "                ref_index = references.index(ref) + 1", "                ref_index = references.index(ref)")
m("c10-no-deduplication", ["C10"], A,
  "                if ref not in references:\n                    references.append(ref)", "                references.append(ref)")
m("c11-cidar-cassette-vector-one-N", ["C11", "C04"], "moclo-cidar/moclo/kits/cidar.py",
  '''            "GAAGAC"  # BbsI
            "NN"
            "(NNNN)"  # Downstream overhang
            "(N"''',
  '''            "GAAGAC"  # BbsI
            "N"
            "(NNNN)"  # Downstream overhang
            "(N"''')
m("c12-module-screen-counts-forward-sites-only", ["C12", "C04"], MOD,
  "        if len(self.cutter.catalyse(_match.group(0).seq)) > 3:\n            raise errors.IllegalSite(self.seq)\n        return _match\n\n\nclass Product",
  "        if str(_match.group(0).seq).upper().count(self.cutter.site) > 1:\n            raise errors.IllegalSite(self.seq)\n        return _match\n\n\nclass Product",
  note="extra reverse-orientation site inside a module target is no longer rejected (forward one still is)")
m("c13-no-modulo", ["C13"], REC,
  "        index %= len(self.seq)  # avoid unnecessary cycles\n", "        index = index if abs(index) < 2 * len(self.seq) else index % len(self.seq)\n")
m("c14-reverse-complement-returns-plain-record", ["C14"], REC,
  "        return type(self)(\n            super(CircularRecord, self).reverse_complement(", "        return (\n            super(CircularRecord, self).reverse_complement(")
m("c14-features-false-by-default", ["C14", "C12"], REC,
  "        description=False,\n        features=True,", "        description=False,\n        features=False,")
m("c15-radd-guard-removed", ["C15"], REC,
  "    @_ambiguous\n    def __radd__(self, other):", "    def __radd__(self, other):")
m("c15-getitem-keeps-circular-type", ["C15"], REC,
  "            return SeqRecord(\n                rec.seq,\n                rec.id,", "            return type(self)(\n                rec.seq,\n                rec.id,")
m("c15-contains-without-length-check", ["C15"], REC,
  "        return len(char) <= len(self) and char in str(self.seq) * 2", "        return char in str(self.seq) * 2")
m("c16-B-loses-T", ["C16"], RX, '        "B": "[CGT]",', '        "B": "[CG]",')
m("c16-no-ignorecase", ["C16", "C18"], RX, '        target = ["(?i)"]', '        target = [""]')
m("c17-illegal-site-not-invalid-sequence", ["C17"], "moclo/moclo/errors.py",
  "class IllegalSite(InvalidSequence):", "class IllegalSite(MocloError, RuntimeError):", note="needs __init__")
m("c18-raw-overhang-in-walk", ["C18"], A,
  "                overhang_next = Seq(str(module.overhang_end()).upper())", "                overhang_next = Seq(str(module.overhang_end()))")
m("c19-target-depends-on-backbone-parity", ["C19", "C01"], MOD,
  "        return add_as_source(self.record, (self.record << start)[: end - start])",
  "        return add_as_source(self.record, (self.record << start)[: end - start - (len(self.record) % 7 == 0)])")
m("c20-combined-last-wins", ["C20"], RB, "            self._data.setdefault(item.id, item)", "            self._data[item.id] = item")
m("c20-filesystem-len-counts-every-file", ["C20"], RB, "        return sum(1 for _ in self)",
  '        return sum(1 for _ in self.fs.filterdir("/", exclude_dirs=["*"]))')
m("c20-embedded-getitem-casefold", ["C20"], RB,
  "    def __getitem__(self, item):\n        return self._data[item]\n\n    def __iter__(self):\n        with pkg_resources",
  "    def __getitem__(self, item):\n        return self._data.get(item) or self._data[item.upper()]\n\n    def __iter__(self):\n        with pkg_resources")


def main():
    os.makedirs(OUT, exist_ok=True)
    ok = True
    for mu in M:
        path = os.path.join(REPO, mu["path"])
        src = open(path).read()
        if src.count(mu["old"]) != 1:
            print("!! {}: pattern occurs {} times".format(mu["name"], src.count(mu["old"])))
            ok = False
            continue
        new = src.replace(mu["old"], mu["new"])
        if mu["name"] == "c06-cache-keyed-by-class-name":
            new = new.replace("@six.add_metaclass(abc.ABCMeta)\nclass StructuredRecord", "_REGEX_CACHE = {}\n\n\n@six.add_metaclass(abc.ABCMeta)\nclass StructuredRecord")
        if mu["name"] == "c17-illegal-site-not-invalid-sequence":
            new = new.replace('''    _msg = "illegal site in sequence: {}"''', '''    _msg = "illegal site in sequence: {}"

    def __init__(self, sequence, exc=None, details=None):
        self.sequence = sequence
        self.exc = exc
        self.details = details

    def __str__(self):
        return self._msg.format(self.sequence)''')
        diff = "".join(difflib.unified_diff(src.splitlines(True), new.splitlines(True), "a/" + mu["path"], "b/" + mu["path"]))
        with open(os.path.join(OUT, mu["name"] + ".diff"), "w") as f:
            f.write(diff)
        with open(os.path.join(OUT, mu["name"] + ".props"), "w") as f:
            f.write(" ".join(mu["props"]) + "\n")
    print(len(M), "mutants", "ok" if ok else "WITH ERRORS")


if __name__ == "__main__":
    main()
