#!/bin/bash
# run every check at the given tier (default quick) against /repo; print one line per check
tier="${1:-quick}"
cd "$(dirname "$0")/.."
rc_all=0
for id in $(./mc list); do
  s=$(date +%s)
  out=$(./mc check "$id" --tier "$tier" 2>&1); rc=$?
  e=$(date +%s)
  echo "$id rc=$rc $((e-s))s $(echo "$out" | grep -E '^(VIOLATION|HARNESS|KNOWN)' | head -3 | tr '\n' ' ' | cut -c1-300)"
  [ $rc -ne 0 ] && rc_all=1
done
exit $rc_all
