#!/usr/bin/env python3
"""Regenerate the two generated tables of DESIGN.md (11.6 seeded changes, 11.7 evidence summary) in place."""
import os
import subprocess
import sys

root = os.path.dirname(os.path.dirname(os.path.abspath(__file__)))
p = os.path.join(root, "DESIGN.md")
s = open(p).read()


def out(script):
    r = subprocess.run([sys.executable, os.path.join(root, "tools", script)], stdout=subprocess.PIPE, cwd=root)
    t = r.stdout.decode()
    if r.returncode != 0 or t.count("\n") < 5:
        sys.exit("table script {} failed; DESIGN.md left untouched".format(script))
    return t.rstrip("\n") + "\n"


seeded, summary = out("seeded_table.py"), out("summary_table.py")
i = s.index("| seed | property | change | needs |")
j = s.index("Hand-written changes (`mutants/*.diff`")
s = s[:i] + seeded + "\n" + s[j:]
k = s.index("| check | tier | scenarios |")
s = s[:k] + summary
open(p, "w").write(s)
print("DESIGN.md tables refreshed")
