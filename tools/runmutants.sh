#!/bin/bash
# for every mutants/<name>.diff (or the names given): scratch worktree, apply, run the pinned suite, run the target checks (quick)
# appends one line per mutant to mutants/RESULTS.tsv:  name  suite  check results
cd "$(dirname "$0")/.."
names=("$@")
if [ ${#names[@]} -eq 0 ]; then names=($(ls mutants/*.diff | xargs -n1 basename | sed 's/\.diff$//')); fi
run_one() {
  name="$1"
  wt="$(mktemp -d /tmp/mutrun-XXXXXX)"
  git -C /repo worktree add -q --detach "$wt/repo" HEAD
  if ! git -C "$wt/repo" apply "/verif/mutants/$name.diff" 2>/dev/null; then echo -e "$name\tAPPLY-FAILED"; git -C /repo worktree remove --force "$wt/repo"; rm -rf "$wt"; return; fi
  suite=$(cd "$wt/repo" && /venv/bin/python -m pytest -q -p no:cacheprovider --timeout=900 --continue-on-collection-errors 2>&1 | tail -1 | sed 's/ in [0-9.]*s.*//')
  res=""
  for id in $(cat "mutants/$name.props"); do
    out=$(MOCLO_ROOT="$wt/repo" MCV_EVIDENCE_DIR="$wt/ev" MCV_REPLAY_DIR="$wt/rp" ./mc check "$id" 2>&1); rc=$?
    fp=$(echo "$out" | grep -E '^  # ' | head -2 | sed 's/^  # //' | cut -d' ' -f1 | tr '\n' ',')
    [ $rc -eq 2 ] && fp="$fp $(echo "$out" | grep HARNESS | head -1 | cut -c1-120)"
    res="$res $id:rc=$rc[$fp]"
  done
  echo -e "$name\t$suite\t$res"
  git -C /repo worktree remove --force "$wt/repo"; rm -rf "$wt"
}
export -f run_one
printf "%s\n" "${names[@]}" | xargs -P 4 -I{} bash -c 'run_one {}' | tee -a mutants/RESULTS.tsv
