#!/usr/bin/env python3
"""Markdown table of seeded changes and which checks catch them (from seeded/*/meta.json)."""
import glob, json, os
rows = []
for p in sorted(glob.glob(os.path.join(os.path.dirname(os.path.dirname(os.path.abspath(__file__))), "seeded", "*", "meta.json"))):
    m = json.load(open(p))
    name = os.path.basename(os.path.dirname(p))
    v = m.get("verified_by_me", {})
    ch = v.get("checks", {})
    caught = "; ".join("{} rc={} ({})".format(k, x["rc"], ", ".join(f.split("/", 1)[1] for f in x["fingerprints"][:3] if "/" in f) or "-") for k, x in ch.items())
    rows.append("| {} | {} | {} | {} | demo {}/{} | {} |".format(name, m.get("breaks", m.get("property")), (m.get("summary") or "")[:150].replace("|", "/"),
                (m.get("needs") or "")[:150].replace("|", "/"), v.get("demo_on_changed"), v.get("demo_on_clean"), caught))
print("| seed | property | change | needs | demo changed/clean | my checks (quick) |\n|---|---|---|---|---|---|")
print("\n".join(rows))
