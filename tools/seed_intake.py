#!/usr/bin/env python3
"""tools/seed_intake.py <ID-x> [check ids...]  -- take a sub-agent's seeded change from /tmp/seed/<ID-x>, verify it myself
in a fresh scratch worktree (suite passes, demo fails with / passes without the change), store it under seeded/<ID-x>/,
run the given checks (default: the property's own check) against it, record everything in meta.json."""
import json
import os
import shutil
import subprocess
import sys
import tempfile

VERIF = os.path.dirname(os.path.dirname(os.path.abspath(__file__)))
SUITE = ["/venv/bin/python", "-m", "pytest", "-q", "-p", "no:cacheprovider", "--timeout=900", "--continue-on-collection-errors"]


def sh(cmd, **kw):
    return subprocess.run(cmd, stdout=subprocess.PIPE, stderr=subprocess.STDOUT, **kw)


def main():
    name = sys.argv[1]
    pid = name.split("-")[0]
    checks = sys.argv[2:] or [pid]
    src = "/tmp/seed/" + name
    out = "/tmp/seed/" + name + "-out"
    dst = os.path.join(VERIF, "seeded", name)
    os.makedirs(dst, exist_ok=True)
    if os.path.isdir(src):
        diff = sh(["git", "-C", src, "diff", "--", "moclo", "moclo-cidar", "moclo-ecoflex", "moclo-moclo", "moclo-plant", "moclo-ytk"]).stdout.decode()
        open(os.path.join(dst, "patch.diff"), "w").write(diff)
        for f in ("demo.py", "meta.json"):
            if os.path.exists(os.path.join(out, f)):
                shutil.copy(os.path.join(out, f), os.path.join(dst, f))
    meta_p = os.path.join(dst, "meta.json")
    try:
        meta = json.load(open(meta_p))
    except Exception:
        meta = {"property": pid}
    wt = tempfile.mkdtemp(prefix="seedchk-")
    res = {}
    try:
        sh(["git", "-C", "/repo", "worktree", "add", "-q", "--detach", wt + "/mod", "HEAD"])
        sh(["git", "-C", "/repo", "worktree", "add", "-q", "--detach", wt + "/clean", "HEAD"])
        r = sh(["git", "-C", wt + "/mod", "apply", os.path.join(dst, "patch.diff")])
        res["applies"] = r.returncode == 0
        if r.returncode != 0:
            print("patch does not apply:", r.stdout.decode())
        else:
            s = sh(SUITE, cwd=wt + "/mod").stdout.decode().strip().splitlines()[-1]
            res["suite_with_change"] = s
            demo = os.path.join(dst, "demo.py")
            if os.path.exists(demo):
                # clean side needs registry archives for some demos: build in place in the scratch worktree
                res["demo_on_changed"] = sh(["/venv/bin/python", demo, wt + "/mod"], timeout=900).returncode
                sh(SUITE + ["-x", "-k", "test_registry"], cwd=wt + "/clean")
                res["demo_on_clean"] = sh(["/venv/bin/python", demo, wt + "/clean"], timeout=900).returncode
            env = dict(os.environ, MOCLO_ROOT=wt + "/mod", MCV_EVIDENCE_DIR=wt + "/ev", MCV_REPLAY_DIR=wt + "/rp")
            res["checks"] = {}
            for c in checks:
                r = sh([os.path.join(VERIF, "mc"), "check", c], env=env)
                lines = r.stdout.decode().splitlines()
                fps = [l.strip()[2:].split(" ")[0] for l in lines if l.startswith("  # ")]
                res["checks"][c] = dict(rc=r.returncode, fingerprints=fps[:6], harness=[l[:160] for l in lines if l.startswith("HARNESS")][:2])
    finally:
        for d in ("mod", "clean"):
            sh(["git", "-C", "/repo", "worktree", "remove", "--force", wt + "/" + d])
        shutil.rmtree(wt, ignore_errors=True)
    prev = meta.get("verified_by_me")
    if isinstance(prev, dict) and prev.get("checks") and prev.get("checks") != res.get("checks"):
        # keep what the checks said before they were strengthened
        meta.setdefault("earlier_results", []).append(prev["checks"])
    meta["verified_by_me"] = res
    meta["breaks"] = pid
    meta["ran"] = "pinned suite with the change; demo.py on changed and on clean scratch worktree; ./mc check {} (quick) with MOCLO_ROOT=<changed worktree>".format(" ".join(checks))
    json.dump(meta, open(meta_p, "w"), indent=1)
    print(name, json.dumps(res, indent=1))


if __name__ == "__main__":
    main()
