#!/bin/bash
# usage: tools/mutant.sh <patch.diff> <check id>... : run checks against a scratch worktree carrying the patch
# (evidence and replays of these runs go to a scratch dir, never to /verif/evidence)
set -e
patch="$(realpath "$1")"; shift
wt="$(mktemp -d /tmp/mut-XXXXXX)"
git -C /repo worktree add -q --detach "$wt/repo" HEAD
trap 'git -C /repo worktree remove --force "$wt/repo"; rm -rf "$wt"' EXIT
git -C "$wt/repo" apply "$patch"
for f in /repo/moclo-*/moclo/registry/*.tar.gz; do :; done
mkdir -p "$wt/ev" "$wt/rp"
for id in "$@"; do
  set +e
  MOCLO_ROOT="$wt/repo" MCV_EVIDENCE_DIR="$wt/ev" MCV_REPLAY_DIR="$wt/rp" "${TIER_ENV:-env}" /verif/mc check "$id" ${TIER:+--tier $TIER} | grep -E "^(VIOLATION|HARNESS|KNOWN|C[0-9]+ )|  #" | cut -c1-400
  echo "rc($id)=${PIPESTATUS[0]}"
  set -e
done
