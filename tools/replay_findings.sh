#!/bin/bash
# replay every recorded (and since repaired) defect on the current tree: each must hold now (exit 0);
# a non-zero exit means the defect is back
cd "$(dirname "$0")/.."
rc=0
for f in findings/*.json; do
  id=$(python3 -c "import json,sys; print(json.load(open('$f'))['property'])")
  case "$(basename "$f")" in
    F*) if ./mc check "$id" --replay "$f" --quiet >/dev/null 2>&1; then echo "GONE $f (open finding no longer reproduces: update known_findings.json)"; rc=1; else echo "open $f"; fi ;;
    *)  if ./mc check "$id" --replay "$f" --quiet >/dev/null 2>&1; then echo "ok   $f"; else echo "BACK $f"; rc=1; fi ;;
  esac
done
exit $rc
