"""Evidence files, replay files, known findings, VIOLATION / KNOWN-FINDING lines."""
import json
import os
import subprocess
import sys

from .engine import fp_file

VERIF = os.path.dirname(os.path.dirname(os.path.abspath(__file__)))
EVIDENCE_DIR = os.environ.get("MCV_EVIDENCE_DIR") or os.path.join(VERIF, "evidence")
REPLAY_DIR = os.environ.get("MCV_REPLAY_DIR") or os.path.join(VERIF, "replays")
KNOWN = os.path.join(VERIF, "known_findings.json")
SCHEMA = "/root/.vp/EVIDENCE.schema.json"


def load_known():
    """-> {fingerprint: entry} for open findings only (fixed entries suppress nothing)."""
    if not os.path.exists(KNOWN):
        return {}
    with open(KNOWN) as f:
        data = json.load(f)
    return {e["fingerprint"]: e for e in data.get("open", [])}


def write_replay(v):
    d = os.path.join(REPLAY_DIR, v["property"])
    os.makedirs(d, exist_ok=True)
    path = os.path.join(d, fp_file(v["fingerprint"]))
    with open(path, "w") as f:
        json.dump(v, f, indent=1, sort_keys=True, default=str)
        f.write("\n")
    return path


def reproduces(prop, path):
    """Re-run the scenario from its replay file in a fresh interpreter."""
    env = dict(os.environ)
    env["MCV_NO_REEXEC_CHECK"] = "1"
    r = subprocess.run([os.path.join(VERIF, "mc"), "check", prop, "--replay", path, "--quiet"],
                       env=env, stdout=subprocess.PIPE, stderr=subprocess.STDOUT, timeout=600)
    return r.returncode == 1, r.stdout.decode(errors="replace")


def write_evidence(check, tier, seed, st, wall, extra_cov, nviol):
    os.makedirs(EVIDENCE_DIR, exist_ok=True)
    samples = st.samples
    if samples:
        k = seed % len(samples)
        samples = (samples[k:] + samples[:k])[:6]
    cov = dict(
        states=st.states,
        transitions=st.transitions,
        traces_validated_against_impl=st.traces,
        evaluations=st.evaluations,
        distinct_nontrivial=st.nontrivial,
        rule=check.RULE,
        samples=samples,
        filtered_by_precondition=st.filtered,
        outcome_classes=dict(sorted(st.outcomes.items())),
        coverage_goals={g: st.goals.get(g, 0) for g in sorted(set(st.goals) | set(check.goals(tier)))},
        caps_hit=st.caps,
        units=st.extra.get("units", 0),
    )
    cov.update(extra_cov)
    ev = dict(
        property_id=check.ID,
        tier=tier,
        seed=seed,
        level="model_checking",
        coverage=cov,
        assumptions=list(check.ASSUMPTIONS),
        wall_s=round(wall, 2),
        violations=nviol,
    )
    path = os.path.join(EVIDENCE_DIR, check.ID + ".json")
    tmp = path + ".tmp"
    with open(tmp, "w") as f:
        json.dump(ev, f, indent=1, sort_keys=False, default=str)
        f.write("\n")
    os.replace(tmp, path)
    return path


def validate_evidence(path):
    """Validate against the schema with the tooling venv's jsonschema (the repo venv has none)."""
    if not os.path.exists(SCHEMA):
        return True, "schema not present"
    code = ("import json,sys,jsonschema;"
            "jsonschema.validate(json.load(open(sys.argv[1])), json.load(open(sys.argv[2])))")
    for py in ("python3-vt", "/opt/veriftools/pyvenv/bin/python"):
        try:
            r = subprocess.run([py, "-c", code, path, SCHEMA], stdout=subprocess.PIPE, stderr=subprocess.STDOUT, timeout=120)
        except (OSError, subprocess.TimeoutExpired):
            continue
        return r.returncode == 0, r.stdout.decode(errors="replace")[-2000:]
    return True, "jsonschema unavailable"
