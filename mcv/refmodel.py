"""Reference models. Deliberately boring; imports neither moclo nor `re`.

All positions are 0-based indices into the *circular* top-strand string of a plasmid.
"""
import itertools

# ----------------------------------------------------------------------------------------
# IUPAC alphabet

IUPAC = {
    "A": "A", "C": "C", "G": "G", "T": "T",
    "R": "AG", "Y": "CT", "S": "CG", "W": "AT", "K": "GT", "M": "AC",
    "B": "CGT", "D": "AGT", "H": "ACT", "V": "ACG", "N": "ACGT",
}
_COMP = {
    "A": "T", "C": "G", "G": "C", "T": "A",
    "R": "Y", "Y": "R", "S": "S", "W": "W", "K": "M", "M": "K",
    "B": "V", "V": "B", "D": "H", "H": "D", "N": "N",
}
_COMP.update({k.lower(): v.lower() for k, v in list(_COMP.items())})


def comp(s):
    return "".join(_COMP[c] for c in s)


def revcomp(s):
    return "".join(_COMP[c] for c in reversed(s))


def iupac_match(code, word):
    """Does `word` (concrete or ambiguous letters, any case) match the IUPAC `code` letter-wise?

    A target letter matches a pattern code when it is one of the nucleotides the code stands for;
    additionally the target letter N is matched by the pattern code N (moclo's documented wildcard).
    """
    if len(code) != len(word):
        return False
    for c, w in zip(code, word):
        w = w.upper()
        if c == "N" and w == "N":
            continue
        if w not in IUPAC.get(c, ""):
            return False
    return True


def rotations(s):
    return [s[i:] + s[:i] for i in range(len(s))] if s else [s]


def canon_rot(s):
    """Canonical representative of a circular string (lexicographically least rotation)."""
    if not s:
        return s
    d = s + s
    n = len(s)
    # Booth would be faster; sequences here are short (<= a few kb for registries)
    best = 0
    i, j, k = 0, 1, 0
    while i < n and j < n and k < n:
        a, b = d[i + k], d[j + k]
        if a == b:
            k += 1
            continue
        if a > b:
            i = i + k + 1
        else:
            j = j + k + 1
        if i == j:
            j += 1
        k = 0
    best = min(i, j)
    return d[best:best + n]


def same_circle(a, b):
    return len(a) == len(b) and (a == b or (b in a + a))


def rot_right(s, k):
    """`s >> k`: the last k letters move to the front."""
    n = len(s)
    if n == 0:
        return s
    k %= n
    return s[n - k:] + s[:n - k] if k else s


def circ_slice(s, a, length):
    """`length` letters of the circular string s starting at a (length <= any; wraps as needed)."""
    n = len(s)
    return "".join(s[(a + i) % n] for i in range(length))


def circ_find_all(s, w):
    """All start positions (0..n-1) where word w occurs reading s circularly, case-insensitive.
    Only words not longer than s are considered."""
    n = len(s)
    if not w or len(w) > n:
        return []
    d = (s + s[: len(w) - 1]).upper()
    w = w.upper()
    out = []
    i = d.find(w)
    while i != -1 and i < n:
        out.append(i)
        i = d.find(w, i + 1)
    return out


# ----------------------------------------------------------------------------------------
# Type IIS geometry and digestion

class Geometry(object):
    """A Type IIS enzyme cutting downstream of an asymmetric site leaving a 5' overhang.

    site: recognition sequence (top strand, 5'->3')
    off:  number of nucleotides between the end of the site and the top-strand cut
    ov:   overhang length (the bottom strand is cut `ov` nucleotides further)
    """

    def __init__(self, name, site, off, ov, three=False):
        # three: the enzyme leaves a 3' overhang (top strand cut AFTER the overhang window); the windows are where they are for a
        # 5' cutter, but a top-strand fragment then runs from the END of one window to the END of the next
        self.name, self.site, self.off, self.ov, self.three = name, site.upper(), off, ov, three
        self.rsite = revcomp(self.site)

    def __repr__(self):
        return "Geometry({}, {}({}/{}))".format(self.name, self.site, self.off, self.off + self.ov)

    def key(self):
        return (self.site, self.off, self.ov)


# literature values for the kit cutters (REBASE): BsaI GGTCTC(1/5), BsmBI CGTCTC(1/5), BbsI = BpiI GAAGAC(2/6)
KIT_GEOMETRY = {
    "BsaI": Geometry("BsaI", "GGTCTC", 1, 4),
    "BsmBI": Geometry("BsmBI", "CGTCTC", 1, 4),
    "BbsI": Geometry("BbsI", "GAAGAC", 2, 4),
    "BpiI": Geometry("BpiI", "GAAGAC", 2, 4),
}


def circ_find_pattern(s, pattern):
    """All start positions where the IUPAC `pattern` matches the circular string s (case-insensitive)."""
    n = len(s)
    L = len(pattern)
    if not L or L > n:
        return []
    up = s.upper()
    sets = [IUPAC[c] for c in pattern.upper()]
    out = []
    for i in range(n):
        ok = True
        for k in range(L):
            if up[(i + k) % n] not in sets[k]:
                ok = False
                break
        if ok:
            out.append(i)
    return out


def _find_site(seq, site):
    if set(site) <= set("ACGT"):
        return circ_find_all(seq, site)
    return circ_find_pattern(seq, site)


def windows(seq, g):
    """Overhang windows of every site occurrence on the circular string.

    Returns a list of (a, orient, p): `a` = start of the overhang window [a, a+ov) (mod n),
    orient = +1 for a forward site at p (window downstream), -1 for a reverse site at p
    (window upstream).  Sorted by (p, orient).
    """
    n = len(seq)
    L = len(g.site)
    out = []
    for p in _find_site(seq, g.site):
        out.append(((p + L + g.off) % n, +1, p))
    if g.rsite != g.site:
        for p in _find_site(seq, g.rsite):
            out.append(((p - g.off - g.ov) % n, -1, p))
    out.sort(key=lambda t: (t[2], t[1]))
    return out


def count_sites(seq, g):
    return len(windows(seq, g))


def digest(seq, g):
    """Fragments of the complete digestion of circular `seq`.

    Each fragment is a dict: start (window start of its leading cut), end (window start of its
    trailing cut), text = seq[start:end) circularly (leading overhang included, trailing
    excluded), o5 / o3 = leading / trailing overhang texts, has_site.
    Returns None when the cut windows are not well separated (overlapping windows), which the
    callers treat as "outside the formal definition".
    """
    n = len(seq)
    ws = windows(seq, g)
    if not ws:
        return []
    cutpos = sorted(set(w[0] for w in ws))
    if len(cutpos) != len(ws):
        return None
    frags = []
    for i, a in enumerate(cutpos):
        b = cutpos[(i + 1) % len(cutpos)]
        length = (b - a) % n or n
        if length < g.ov and len(cutpos) > 1:
            return None
        # nucleotides present on at least one strand: [a, b+ov)
        span = length + g.ov
        has = False
        for (_, orient, p) in ws:
            rel = (p - a) % n
            if rel + len(g.site) <= span:
                has = True
        frags.append(dict(start=a, end=b, length=length, text=circ_slice(seq, a, length),
                          o5=circ_slice(seq, a, g.ov), o3=circ_slice(seq, b, g.ov), has_site=has))
    return frags


def site_free_fragment(seq, g):
    """The unique site-free fragment of a plasmid carrying exactly one forward and one reverse
    site arranged as in the formal definition; None otherwise."""
    ws = windows(seq, g)
    if len(ws) != 2 or sorted(w[1] for w in ws) != [-1, 1]:
        return None
    fr = digest(seq, g)
    if not fr:
        return None
    free = [f for f in fr if not f["has_site"]]
    if len(free) != 1:
        return None
    f = free[0]
    # the site-free fragment must start at the forward site's window and end at the reverse one's
    fwd = [w for w in ws if w[1] == 1][0]
    rev = [w for w in ws if w[1] == -1][0]
    if f["start"] != fwd[0] or f["end"] != rev[0]:
        return None
    return f


def golden_gate(vector, modules, g):
    """Analytic Golden Gate product from the plasmid strings alone.

    Returns ("product", circular_string, order, unused) | ("stall", overhang, consumed) |
    ("illformed", reason).  Overhangs are compared case-insensitively.
    """
    fv = site_free_fragment(vector, g)
    if fv is None:
        return ("illformed", "vector")
    fms = []
    for i, m in enumerate(modules):
        f = site_free_fragment(m, g)
        if f is None:
            return ("illformed", "module %d" % i)
        fms.append(f)
    starts = {}
    for i, f in enumerate(fms):
        starts.setdefault(f["o5"].upper(), []).append(i)
    nxt = fv["o3"].upper()
    stop = fv["o5"].upper()
    if nxt == stop:
        return ("illformed", "vector overhangs equal")
    text = fv["text"]
    order = []
    used = set()
    while nxt != stop:
        cands = [i for i in starts.get(nxt, []) if i not in used]
        if not cands:
            return ("stall", nxt, order)
        i = cands[0]
        used.add(i)
        order.append(i)
        text += fms[i]["text"]
        nxt = fms[i]["o3"].upper()
    unused = [i for i in range(len(fms)) if i not in used]
    return ("product", text, order, unused)


# ----------------------------------------------------------------------------------------
# Overhang-graph model of assembly outcomes (C03)

def assembly_outcome(vup, vdown, mods):
    """Admissible outcomes as a function of the overhang graph only.

    vup / vdown: the vector's upstream / downstream overhang (the product reads
    vup . backbone . [vdown == start of first module] ...).
    mods: list of (start, end) per supplied module (distinct objects), upper case.

    Returns a dict:
      kind: "product" -> chain (list of module indices in chain order), unused (sorted indices)
      kind: "error"   -> admissible: set of error names among {"InvalidSequence",
                         "DuplicateModules", "MissingModule"}; for MissingModule `stall`
                         is the overhang at which the chain stalls (when the walk is well
                         defined), conflicts = set of frozenset index pairs that genuinely conflict.
    """
    vup, vdown = vup.upper(), vdown.upper()
    mods = [(s.upper(), e.upper()) for s, e in mods]
    admissible = set()
    conflicts = set()
    if vup == vdown:
        admissible.add("InvalidSequence")
    for i, j in itertools.combinations(range(len(mods)), 2):
        si, sj = mods[i][0], mods[j][0]
        if si == sj or si == revcomp(sj):
            conflicts.add(frozenset((i, j)))
    if conflicts:
        admissible.add("DuplicateModules")
    # the walk (well defined when no two modules share a start)
    stall = None
    chain = []
    if vup != vdown:
        bystart = {}
        for i, (s, e) in enumerate(mods):
            bystart.setdefault(s, []).append(i)
        nxt = vdown
        used = set()
        while nxt != vup:
            c = [i for i in bystart.get(nxt, []) if i not in used]
            if not c:
                stall = nxt
                break
            # with equal starts present the walk is ambiguous; the outcome is an error anyway
            i = c[0]
            used.add(i)
            chain.append(i)
            nxt = mods[i][1]
        if stall is not None:
            admissible.add("MissingModule")
    if admissible:
        return dict(kind="error", admissible=admissible, stall=stall, conflicts=conflicts)
    return dict(kind="product", chain=chain, unused=sorted(set(range(len(mods))) - set(chain)))


# ----------------------------------------------------------------------------------------
# DNA pattern language matcher (Python `re` priority order, no `re`)

def parse_pattern(p):
    """-> (tokens, ngroups); tokens: ('open', g) ('close', g) ('atom', letters, quant)
    quant in '', '*', '*?', '+', '?'.  Letters of an atom: the nucleotide set the code stands
    for (N additionally matches the target letter N)."""
    toks = []
    i = 0
    g = 0
    stack = []
    while i < len(p):
        c = p[i]
        if c == "(":
            g += 1
            stack.append(g)
            toks.append(("open", g))
            i += 1
        elif c == ")":
            toks.append(("close", stack.pop()))
            i += 1
        else:
            q = ""
            if p[i + 1:i + 3] == "*?":
                q = "*?"
            elif p[i + 1:i + 2] in ("*", "+", "?"):
                q = p[i + 1]
            if c not in IUPAC:
                raise ValueError("not an IUPAC letter: %r" % c)
            letters = IUPAC[c] + ("N" if c == "N" else "")
            toks.append(("atom", letters, q))
            i += 1 + len(q)
    if stack:
        raise ValueError("unbalanced pattern")
    return toks, g


class Matcher(object):
    def __init__(self, pattern):
        self.pattern = pattern
        self.toks, self.ngroups = parse_pattern(pattern)
        # literal prefix for a fast reject
        pre = []
        for t in self.toks:
            if t[0] == "atom":
                if t[2] == "":
                    pre.append(t[1])
                else:
                    break
        self.prefix = pre

    def match_at(self, text, start, limit):
        """Anchored match in `text` (upper case) from `start`, never reading at or beyond `limit`.
        Returns (end, spans) with spans[0] the whole match, or None."""
        pre = self.prefix
        if start + len(pre) > limit:
            return None
        for k, letters in enumerate(pre):
            if text[start + k] not in letters:
                return None
        toks = self.toks
        spans = [[-1, -1] for _ in range(self.ngroups + 1)]
        nt = len(toks)

        def rec(ti, pos):
            while ti < nt:
                t = toks[ti]
                kind = t[0]
                if kind == "open":
                    old = spans[t[1]][0]
                    spans[t[1]][0] = pos
                    r = rec(ti + 1, pos)
                    if r is None:
                        spans[t[1]][0] = old
                    return r
                if kind == "close":
                    old = spans[t[1]][1]
                    spans[t[1]][1] = pos
                    r = rec(ti + 1, pos)
                    if r is None:
                        spans[t[1]][1] = old
                    return r
                letters, q = t[1], t[2]
                if q == "":
                    if pos < limit and text[pos] in letters:
                        ti += 1
                        pos += 1
                        continue
                    return None
                if q == "?":
                    if pos < limit and text[pos] in letters:
                        r = rec(ti + 1, pos + 1)
                        if r is not None:
                            return r
                    ti += 1
                    continue
                mx = pos
                while mx < limit and text[mx] in letters:
                    mx += 1
                lo = pos + 1 if q == "+" else pos
                rng = range(lo, mx + 1) if q == "*?" else range(mx, lo - 1, -1)
                for e in rng:
                    r = rec(ti + 1, e)
                    if r is not None:
                        return r
                return None
            return pos

        end = rec(0, start)
        if end is None:
            return None
        spans[0] = [start, end]
        return end, [tuple(s) for s in spans]

    def search(self, s, circular, pos=0, endpos=None):
        """Leftmost start in [pos, min(n, endpos)) with a match of at most one turn.
        Returns dict(start, end, spans, groups) or None; groups are the matched texts read on
        the unrolled target (original case)."""
        n = len(s)
        text = (s + s) if circular else s
        up = text.upper()
        hi = n if endpos is None else min(n, endpos)
        for i in range(max(pos, 0), hi):
            limit = min(len(text), i + n)
            r = self.match_at(up, i, limit)
            if r is not None:
                end, spans = r
                return dict(start=i, end=end, spans=spans,
                            groups=[text[a:b] if a >= 0 else None for a, b in spans])
        return None

    def all_starts(self, s, circular=True):
        """Every start position 0..n-1 at which a (one-turn) match exists."""
        n = len(s)
        text = (s + s) if circular else s
        up = text.upper()
        out = []
        for i in range(n):
            if self.match_at(up, i, min(len(text), i + n)) is not None:
                out.append(i)
        return out


# ----------------------------------------------------------------------------------------
# Feature geometry: which nucleotides does a location denote?

def denoted(parts, n):
    """parts: list of (start, end, strand) in Biopython order of a location; returns the list of
    (position mod n, strand) in the order the location reads them (strand -1 parts read backwards).
    Coordinates beyond n are read modulo n (CircularRecord rotation pushes locations past the end)."""
    out = []
    for (a, b, s) in parts:
        if a == b:
            # a zero-length part (GenBank `a^a+1`) denotes the boundary in front of nucleotide a
            out.append((a % n, s, "^"))
            continue
        idx = list(range(a, b))
        if s == -1:
            idx.reverse()
        out.extend(((i % n), s) for i in idx)
    return out


def rotate_denoted(den, n, k):
    """positions after `>> k`."""
    return [(((d[0] + k) % n, d[1]) if len(d) == 2 else ((d[0] + k) % n, d[1], "^")) for d in den]


def revcomp_denoted(den, n):
    """positions after reverse complement: nucleotide p becomes n-1-p on the opposite strand.
    The *reading order* of the denoted nucleotides is preserved (the feature text is unchanged
    when extracted strand-aware)."""
    flip = {1: -1, -1: 1, 0: 0, None: None}
    return [(((n - 1 - d[0]) % n, flip[d[1]]) if len(d) == 2 else ((n - d[0]) % n, flip[d[1]], "^")) for d in den]


# ----------------------------------------------------------------------------------------
# Registries

class DictRegistry(object):
    def __init__(self):
        self.d = {}

    def add(self, items):
        for k, v in items:
            self.d.setdefault(k, v)
        return self
