"""Shared machinery for assembly scenarios: build plasmids from pieces, run the real assembly,
observe the outcome."""
import warnings

from . import gen, refmodel as rm
from .engine import watch, ScenarioTimeout, HarnessError, note_timeout
from Bio.Seq import Seq
from moclo import errors
from moclo.record import CircularRecord

DEFAULT_LEN = dict(body="ov+1", mbb=3, vbb="ov+1", vph=3)


def region_len(spec, g):
    if isinstance(spec, int):
        return spec
    return {"ov-1": max(g.ov - 1, 0), "ov": g.ov, "ov+1": g.ov + 1, "ov+2": g.ov + 2}[spec]


def base_scenario(enz, k, scheme=0, ovscheme=0, lens=None, palindromic_junction=None):
    """Pieces of a well-formed assembly of k modules for enzyme `enz` (name).

    lens: dict region-name -> length spec overriding the default; region names: body0.., mbb0.., vbb, vph
    Returns a JSON-able dict with every piece spelled out; plasmid strings are derived by plasmids().
    Contents are retried with shifted word offsets until every plasmid carries exactly two sites."""
    g = gen.geometry_of(gen.enzyme(enz))
    lens = dict(lens or {})
    ovs = gen.overhang_words(g.ov, k + 1, ovscheme)
    if len(ovs) < k + 1:
        return None
    if palindromic_junction is not None:
        pal = palindrome(g.ov)
        if pal is None or palindromic_junction >= k:
            return None
        ovs = list(ovs)
        ovs[palindromic_junction] = pal
    forbid = [g.site]
    scn = None
    for attempt in range(12):
        sh = attempt * 5
        bodies, mbbs, fills = [], [], []
        for i in range(k):
            bl = region_len(lens.get("body%d" % i, DEFAULT_LEN["body"]), g) + (i if "body%d" % i not in lens else 0)
            bodies.append(gen.word(scheme, 5 + 13 * i + sh, max(bl, 2), forbid))
            ml = region_len(lens.get("mbb%d" % i, DEFAULT_LEN["mbb"]), g)
            mbbs.append(gen.word(scheme + 1, 31 + 7 * i + sh, ml, forbid))
            fills.append([gen.word(scheme, 3 + i + sh, g.off, forbid), gen.word(scheme, 17 + i + sh, g.off, forbid)])
        vbb = gen.word(scheme, 61 + sh, max(region_len(lens.get("vbb", DEFAULT_LEN["vbb"]), g), 2), forbid)
        vph = gen.word(scheme + 1, 47 + sh, region_len(lens.get("vph", DEFAULT_LEN["vph"]), g), forbid)
        vfill = [gen.word(scheme, 29 + sh, g.off, forbid), gen.word(scheme, 41 + sh, g.off, forbid)]
        scn = dict(enz=enz, k=k, ovs=list(ovs), bodies=bodies, mbbs=mbbs, fills=fills, vbb=vbb, vph=vph, vfill=vfill,
                   rot=[0] * (k + 1), perm=list(range(k)))
        vec, mods = pieces_to_plasmids(scn)
        if all(rm.count_sites(p, g) == 2 for p in [vec] + mods):
            return scn
    return scn


def palindrome(ov):
    if ov % 2:
        return None
    half = "GTAC"[: ov // 2] if ov <= 8 else None
    if ov == 2:
        return "AT"
    if ov == 4:
        return "GTAC"
    if ov == 6:
        return "GTATAC"
    return None


def pieces_to_plasmids(scn):
    """-> (vector string, [module strings]) at rotation 0 (before scn['rot'] is applied)."""
    g = gen.geometry_of(gen.enzyme(scn["enz"]))
    k = scn["k"]
    ovs = scn["ovs"]
    vx, vy = scn["vfill"]
    vec = gen.mk_vector(g, ovs[k], ovs[0], scn["vbb"], scn["vph"], x=vx, y=vy)
    mods = [gen.mk_module(g, ovs[i], scn["bodies"][i], ovs[i + 1], scn["mbbs"][i], x=scn["fills"][i][0], y=scn["fills"][i][1])
            for i in range(k)]
    return vec, mods


def plasmids(scn):
    vec, mods = pieces_to_plasmids(scn)
    rot = scn.get("rot") or [0] * (scn["k"] + 1)
    vec = rm.rot_right(vec, rot[0])
    mods = [rm.rot_right(m, rot[i + 1]) for i, m in enumerate(mods)]
    if scn.get("strand") == "rc":
        vec = rm.revcomp(vec)
        mods = [rm.revcomp(m) for m in mods]
    lower = scn.get("lower")
    if lower:
        # participants (0 = vector, i+1 = module i) spelled in lower case
        if 0 in lower:
            vec = vec.lower()
        mods = [m.lower() if (i + 1) in lower else m for i, m in enumerate(mods)]
    return vec, mods


def constructive_product(scn):
    k = scn["k"]
    ovs = scn["ovs"]
    p = ovs[k] + scn["vbb"]
    for i in range(k):
        p += ovs[i] + scn["bodies"][i]
    return p


def well_formed(scn):
    """Analytic precondition: each plasmid carries exactly the two sites of the formal definition and the
    analytic model agrees with the constructive one.  -> (ok, reason)"""
    g = gen.geometry_of(gen.enzyme(scn["enz"]))
    vec, mods = pieces_to_plasmids(scn)
    for name, s in [("vector", vec)] + [("module%d" % i, m) for i, m in enumerate(mods)]:
        if rm.count_sites(s, g) != 2:
            return False, name + " does not carry exactly two sites"
    r = rm.golden_gate(vec, mods, g)
    if r[0] != "product":
        return False, "analytic model: " + str(r[:2])
    if not rm.same_circle(r[1], constructive_product(scn)):
        raise HarnessError("constructive and analytic oracles disagree on {}".format(scn))
    return True, ""


_pending_timeout = [False]


class Outcome(object):
    __slots__ = ("kind", "seq", "record", "exc", "exc_name", "warnings", "attrs")

    def __init__(self):
        self.kind = None
        self.seq = None
        self.record = None
        self.exc = None
        self.exc_name = None
        self.warnings = []
        self.attrs = {}

    def brief(self):
        if self.kind == "product":
            return ["product", self.seq if len(self.seq) < 400 else self.seq[:60] + "...", [w for w in self.attrs.get("unused", [])]]
        return [self.kind, self.exc_name, {k: v for k, v in self.attrs.items() if not k.endswith("_objs")}]


def run_assemble(vector, modules, **kw):
    """Call vector.assemble(*modules) on live entity objects; never lets an exception escape.
    warnings_as_errors=True runs the call the way errors.AssemblyWarning documents: with the warning turned into an error."""
    o = Outcome()
    as_errors = kw.pop("warnings_as_errors", False)
    if _pending_timeout[0]:
        _pending_timeout[0] = False
        note_timeout()
    try:
        with warnings.catch_warnings(record=True) as caught:
            warnings.simplefilter("always")
            if as_errors:
                warnings.simplefilter("error", category=errors.AssemblyWarning)
            with watch():
                rec = vector.assemble(*modules, **kw)
        o.kind = "product"
        o.record = rec
        o.seq = str(rec.seq)
        unused = []
        for w in caught:
            if isinstance(w.message, errors.UnusedModules):
                unused.append([getattr(m.record, "id", "?") for m in w.message.remaining])
                o.attrs.setdefault("unused_objs", []).append(list(w.message.remaining))
        o.warnings = caught
        o.attrs["unused"] = unused
    except ScenarioTimeout:
        o.kind = "timeout"
        o.exc_name = "ScenarioTimeout"
        _pending_timeout[0] = True
    except errors.MocloError as e:
        o.kind = "moclo-error"
        o.exc = e
        o.exc_name = type(e).__name__
        if isinstance(e, errors.MissingModule):
            o.attrs["start_overhang"] = str(e.start_overhang)
        if isinstance(e, errors.DuplicateModules):
            o.attrs["duplicates"] = [getattr(m.record, "id", "?") for m in e.duplicates]
            o.attrs["duplicate_objs"] = list(e.duplicates)
    except Exception as e:
        o.kind = "internal-error"
        o.exc = e
        o.exc_name = type(e).__name__
        o.attrs["message"] = str(e)[:200]
    return o


def entities(scn, vec, mods):
    """Wrap strings as entities of the generic classes of scn['enz'] (fresh pattern caches)."""
    if scn.get("three_prime"):
        # enzymes that leave 3' overhangs can only be used through signature-typed parts: one class per participant
        from .checks import c04
        k = scn["k"]
        o = scn["ovs"]
        V = c04.part3(scn["enz"], "vector", (o[k], o[0]))
        Ms = [c04.part3(scn["enz"], "module", (o[i], o[i + 1])) for i in range(k)]
        for c in [V] + Ms:
            gen.fresh(c)
        # `mods` may have been permuted by the caller only through scn['perm'] (applied later), so index i is module i here
        return V(gen.crec(vec, "vec")), [Ms[i](gen.crec(m, "mod%d" % i)) for i, m in enumerate(mods)]
    M, V = gen.generic_classes(scn["enz"])
    gen.fresh(M)
    gen.fresh(V)
    if scn.get("decor"):
        # every participant annotated with features of every unusual but legal shape; decor = 1 + index of the route along
        # which the records were produced (fresh, rotated back by the library, reverse-complemented twice, through GenBank text, ...)
        route = gen.ROUTES[scn["decor"] - 1]
        if route == "fresh" and any(scn.get("rot") or []):
            # (the full set of decorations on the unrotated scenario; two spots of every flavour when combined with a rotation)
            v = V(gen.contained(vec, "annotated-light", "vec"))
            ms = [M(gen.contained(m, "annotated-light", "mod%d" % i)) for i, m in enumerate(mods)]
            return v, ms
        v = V(gen.produced(vec, route, "vec"))
        ms = [M(gen.produced(m, route, "mod%d" % i)) for i, m in enumerate(mods)]
        return v, ms
    v = V(gen.crec(vec, "vec"))
    ms = [M(gen.crec(m, "mod%d" % i)) for i, m in enumerate(mods)]
    return v, ms


KEEPALIVE = []      # entities deliberately kept alive across scenarios (a user keeps parts around)


def keep_alive(scn):
    """build the entities of a scenario, type them, and keep them referenced for the rest of the unit"""
    vec, mods = plasmids(scn)
    try:
        v, ms = entities(scn, vec, mods)
        for e in [v] + ms:
            e.is_valid()
    except Exception:
        return          # (the scenario itself reports what the library answers; nothing to keep alive)
    KEEPALIVE.append((v, ms))


def assemble_scenario(scn):
    vec, mods = plasmids(scn)
    try:
        v, ms = entities(scn, vec, mods)
    except Exception as e:
        # (the library refuses to wrap a plasmid in a class it defines: an answer, not a fault of the harness)
        o = Outcome()
        o.kind, o.exc, o.exc_name = "internal-error", e, type(e).__name__
        o.attrs["message"] = "while wrapping the records: " + str(e)[:160]
        return o
    perm = scn.get("perm") or list(range(len(ms)))
    return run_assemble(v, [ms[i] for i in perm])


def qual1(f, key, default=""):
    """first value of a qualifier that may be stored as a plain string or as a list"""
    v = f.qualifiers.get(key, default)
    if isinstance(v, (list, tuple)):
        return v[0] if v else default
    return v


def is_generated_source(f):
    """provenance feature added by the assembly (type 'source', label 'source: <id>')"""
    return f.type == "source" and str(qual1(f, "label")).startswith("source: ") and "plasmid" in f.qualifiers
