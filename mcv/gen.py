"""Alphabets and generators: enzymes, plasmid templates, kit classes and structure instances."""
import functools
import importlib
import inspect

from . import boot  # noqa: F401  (puts the working tree on sys.path)
from . import refmodel as rm
from .engine import HarnessError

from Bio.Seq import Seq
from Bio.SeqRecord import SeqRecord  # noqa: F401
from Bio.SeqFeature import SeqFeature, FeatureLocation, CompoundLocation  # noqa: F401
from Bio import Restriction

from moclo.record import CircularRecord
from moclo.core import modules as _modules, vectors as _vectors, parts as _parts
from moclo.core._structured import StructuredRecord

KIT_MODULES = ["ytk", "cidar", "ecoflex", "moclo", "plant"]


# ----------------------------------------------------------------------------------------
# enzymes

@functools.lru_cache(None)
def enzymes():
    """One representative per distinct elucidate() string among the enzymes of the C01 domain:
    non-blunt, known, non-palindromic, single cut, 5' overhang, unambiguous site of length 5-7
    cut downstream of the site.  -> list of (name, Geometry) sorted by (site length, off, ov, name)."""
    seen = {}
    for e in sorted(Restriction.AllEnzymes, key=lambda e: e.__name__):
        if e.is_blunt() or e.is_unknown() or e.is_palindromic() or not e.is_5overhang():
            continue
        if e.scd5 is not None or e.fst5 is None:
            continue
        site = e.site
        if set(site) - set("ACGT") or not (5 <= len(site) <= 7) or e.fst5 <= len(site):
            continue
        el = e.elucidate()
        if el in seen:
            continue
        g = rm.Geometry(e.__name__, site, e.fst5 - len(site), -e.ovhg)
        # cross-check the REBASE attributes against the elucidated pattern
        expect = site + "N" * g.off + "^" + "N" * g.ov + "_N"
        if el != expect or g.ov <= 0:
            raise HarnessError("geometry of {} disagrees with elucidate(): {} vs {}".format(e.__name__, el, expect))
        seen[el] = (e.__name__, g)
    out = sorted(seen.values(), key=lambda t: (len(t[1].site), t[1].off, t[1].ov, t[0]))
    # prefer the kit cutters' own names where an isoschizomer was picked
    return out


@functools.lru_cache(None)
def inside_cutters():
    """Enzymes (5' overhang, unambiguous non-palindromic site, single cut) that cut INSIDE their own recognition site: the sticky end
    is part of the site.  No Golden Gate kit uses one, but the library builds classes over them.  -> list of (name, Geometry)"""
    seen = {}
    for e in sorted(Restriction.AllEnzymes, key=lambda e: e.__name__):
        if e.is_blunt() or e.is_unknown() or e.is_palindromic() or not e.is_5overhang() or e.scd5 is not None or e.fst5 is None:
            continue
        if set(e.site) - set("ACGT") or e.fst5 > len(e.site) or e.fst5 <= 0:
            continue
        if e.elucidate() not in seen:
            seen[e.elucidate()] = (e.__name__, rm.Geometry(e.__name__, e.site, e.fst5 - len(e.site), -e.ovhg))
    return sorted(seen.values(), key=lambda t: t[0])


@functools.lru_cache(None)
def three_prime_enzymes():
    """One representative per distinct geometry among the enzymes that leave a 3' overhang downstream of an unambiguous,
    non-palindromic site of 4-7 letters (single cut, overhang window entirely outside the site).  Usable through
    signature-typed parts only.  -> list of (name, Geometry)"""
    seen = {}
    for e in sorted(Restriction.AllEnzymes, key=lambda e: e.__name__):
        if e.is_blunt() or e.is_unknown() or e.is_palindromic() or not e.is_3overhang():
            continue
        if e.scd5 is not None or e.fst5 is None:
            continue
        site = e.site
        if set(site) - set("ACGT") or not (4 <= len(site) <= 7):
            continue
        off = e.fst5 - len(site) - e.ovhg
        if off < 0 or e.ovhg <= 0:
            continue
        el = e.elucidate()
        if el != site + "N" * off + "_" + "N" * e.ovhg + "^N":
            raise HarnessError("geometry of {} disagrees with elucidate(): {}".format(e.__name__, el))
        key = (site, off, e.ovhg)
        if key not in seen:
            seen[key] = (e.__name__, rm.Geometry(e.__name__, site, off, e.ovhg, three=True))
    return sorted(seen.values(), key=lambda t: (t[1].ov, len(t[1].site), t[1].off, t[0]))


@functools.lru_cache(None)
def degenerate_enzymes():
    """Type IIS enzymes of the same kind (5' overhang, single cut downstream of the site, non-palindromic) whose
    recognition site contains IUPAC ambiguity codes -- outside C01's stated domain, inside C04's ("every supported enzyme")."""
    seen = {}
    for e in sorted(Restriction.AllEnzymes, key=lambda e: e.__name__):
        if e.is_blunt() or e.is_unknown() or e.is_palindromic() or not e.is_5overhang():
            continue
        if e.scd5 is not None or e.fst5 is None:
            continue
        site = e.site
        if not (set(site) - set("ACGT")) or e.fst5 <= len(site):
            continue
        el = e.elucidate()
        if el in seen:
            continue
        g = rm.Geometry(e.__name__, site, e.fst5 - len(site), -e.ovhg)
        if el != site + "N" * g.off + "^" + "N" * g.ov + "_N":
            raise HarnessError("geometry of {} disagrees with elucidate()".format(e.__name__))
        seen[el] = (e.__name__, g)
    return sorted(seen.values(), key=lambda t: t[0])


def enzyme(name):
    return getattr(Restriction, name)


def geometry_of(enz):
    """Geometry of any Bio.Restriction enzyme in the domain (kit cutters use literature values)."""
    name = enz.__name__
    if name in rm.KIT_GEOMETRY:
        g = rm.KIT_GEOMETRY[name]
        if (enz.site, enz.fst5 - len(enz.site), -enz.ovhg) != g.key():
            raise HarnessError("Biopython data for {} disagrees with the literature".format(name))
        return g
    if enz.is_3overhang():
        return rm.Geometry(name, enz.site, enz.fst5 - len(enz.site) - enz.ovhg, enz.ovhg, three=True)
    return rm.Geometry(name, enz.site, enz.fst5 - len(enz.site), -enz.ovhg)


_generic = {}


def generic_classes(name):
    """(module class, vector class) declared by the harness exactly as a user would."""
    if name not in _generic:
        e = enzyme(name)
        M = type(str("GM_" + name), (_modules.AbstractModule,), {"cutter": e})
        V = type(str("GV_" + name), (_vectors.AbstractVector,), {"cutter": e})
        _generic[name] = (M, V)
    return _generic[name]


def fresh(cls):
    """Forget compiled patterns along the MRO of cls so that its verdict is computed from its own
    structure (history effects are the business of C06 only)."""
    for c in cls.__mro__:
        if c is not StructuredRecord and "_regex" in c.__dict__:
            try:
                delattr(c, "_regex")
            except AttributeError:
                pass
    return cls


def reset_all_caches():
    seen = set()
    stack = [StructuredRecord]
    while stack:
        c = stack.pop()
        for s in c.__subclasses__():
            if s not in seen:
                seen.add(s)
                stack.append(s)
                if "_regex" in s.__dict__:
                    delattr(s, "_regex")


# ----------------------------------------------------------------------------------------
# words

# two aperiodic words (no period < length at any window of 8); regions take different slices
_W = [
    "ACGTTGCAATCGGATTACAGCCTAGTCAAGTGCTTGAACCGTATCGCGAATTTCAGGGACTCTAGATGCCATAGGCTTAACGAGTTCCGACAT",
    "TTGACCATGCGTAAGCTCCGATAGTTCGGCAACTAGGTACCTTGCATCAGAGCGTTTACGCCAGTGATCCTAAGGCGTGTTAAACTCGGAGCT",
]


def word(scheme, offset, length, forbid=()):
    """`length` letters of scheme word number `scheme` starting at `offset` (cyclic); letters are
    changed minimally where a forbidden site (or its reverse complement) would appear."""
    w = _W[scheme % len(_W)]
    s = "".join(w[(offset + i) % len(w)] for i in range(length))
    if forbid:
        s = _avoid(s, forbid)
    return s


def _avoid(s, forbid):
    s = list(s)
    words = set()
    for f in forbid:
        words.add(f.upper())
        words.add(rm.revcomp(f.upper()))
    changed = True
    guard = 0
    while changed and guard < 50:
        changed = False
        guard += 1
        t = "".join(s)
        for f in words:
            i = t.find(f)
            if i != -1:
                j = i + len(f) // 2
                s[j] = {"A": "C", "C": "A", "G": "T", "T": "G"}[s[j]]
                changed = True
                break
    return "".join(s)


def overhang_words(ov, count, scheme=0):
    """Junction overhangs o_0 .. o_{count-1} of a legal chain: o_0..o_{count-2} are the module start
    overhangs (pairwise different, no two reverse-complementary, none palindromic); the last word is
    the vector's upstream overhang: different from every start (it may be the reverse complement of
    one).  Deterministic: lexicographic with a scheme-dependent rotation.  Returns fewer words when
    the alphabet cannot provide them."""
    import itertools
    letters = "ACGT"
    allw = ["".join(p) for p in itertools.product(letters, repeat=ov)]
    k = (scheme * 7) % len(allw)
    allw = allw[k:] + allw[:k]
    starts = []
    for w in allw:
        if len(starts) == count - 1:
            break
        r = rm.revcomp(w)
        if w == r or w in starts or r in starts:
            continue
        if ov > 1 and len(set(w)) == 1:
            continue
        starts.append(w)
    if len(starts) < count - 1:
        return starts
    for w in reversed(allw):
        if w not in starts and w != rm.revcomp(w) and not (ov > 1 and len(set(w)) == 1):
            return starts + [w]
    return starts


# ----------------------------------------------------------------------------------------
# plasmid templates (docs/source/theory/standard.rst)

def mk_module(g, o5, body, o3, bb, x=None, y=None, scheme=0):
    """s . x . o5 . body . o3 . y . ~s . bb   (target = o5 . body)"""
    x = word(scheme, 3, g.off) if x is None else x
    y = word(scheme, 17, g.off) if y is None else y
    assert len(x) == g.off and len(y) == g.off and len(o5) == g.ov and len(o3) == g.ov
    return g.site + x + o5 + body + o3 + y + g.rsite + bb


def mk_vector(g, up, down, bb, ph, x=None, y=None, scheme=0):
    """up . bb . down . y . ~s . ph . s . x    (target = up . bb; the product reads
    up . bb . [down . t1] ... ; `down` is the vector's downstream overhang = first module's start)"""
    x = word(scheme, 29, g.off) if x is None else x
    y = word(scheme, 41, g.off) if y is None else y
    assert len(x) == g.off and len(y) == g.off and len(up) == g.ov and len(down) == g.ov
    return up + bb + down + y + g.rsite + ph + g.site + x


def crec(seq, id="r", **kw):
    return CircularRecord(Seq(seq), id=id, name=kw.pop("name", id), **kw)


def contained(seq, container, id="r"):
    """a CircularRecord of `seq` in one of the containers a user may legitimately use"""
    from Bio.Seq import MutableSeq
    n = len(seq)
    if container == "mutable":
        return CircularRecord(MutableSeq(seq), id=id, name=id)
    if container in ("annotated", "annotated-light"):
        return CircularRecord(Seq(seq), id=id, name=id, features=decorations(n, light=container.endswith("light")), letter_annotations={"idx": list(range(n)), "txt": "x" * n},
                              annotations={"topology": "circular", "molecule_type": "DNA", "keywords": ["k"], "comment": ["a comment kept as a list", "of two lines"],
                                           "structured_comment": {"Assembly-Data": {"Method": "x"}}, "date": "01-JAN-2020",
                                           "source": "synthetic construct (a SOURCE line without an ORGANISM line)", "accessions": [id], "data_file_division": "SYN"},
                              dbxrefs=["db:1"])
    if container == "seq":
        return crec(seq, id)
    raise ValueError(container)


CONTAINERS = ["seq", "mutable", "annotated"]
ROUTES = ["fresh", "rotated-back", "rc-twice", "genbank", "rotated-rc-rotated", "reassigned-after-rotation", "reassigned-after-rc",
          "source-edited-later"]


KEEP = []       # source records of the "source-edited-later" route stay referenced


def produced(seq, route, id="r"):
    """A fully annotated CircularRecord denoting plasmid `seq`, PRODUCED along one of several routes through the library (or
    through GenBank text), so that the same content comes with another internal spelling: locations past the end or with
    negative starts, re-sorted features, re-parsed qualifiers and annotations."""
    import io
    from Bio import SeqIO
    n = len(seq)
    if route == "fresh" or n < 4:
        return contained(seq, "annotated", id)
    if route == "rotated-back":
        a = max(1, n // 3)
        return contained(rm.rot_right(seq, a), "annotated-light", id) >> (n - a)
    if route == "rc-twice":
        r = contained(seq, "annotated-light", id)
        return r.reverse_complement(id=True, name=True, description=True, annotations=True, dbxrefs=True).reverse_complement(
            id=True, name=True, description=True, annotations=True, dbxrefs=True)
    if route == "rotated-rc-rotated":
        a = max(1, n // 4)
        r = (contained(rm.rot_right(rm.revcomp(seq), a), "annotated-light", id) >> (n - a)).reverse_complement(id=True, name=True, annotations=True)
        return r >> 2 << 2
    if route in ("reassigned-after-rotation", "reassigned-after-rc", "source-edited-later"):
        # records whose history disagrees with their present content: the sequence was assigned after the record came out of a
        # rotation / a reverse complement (as scripts that re-origin and then correct plasmids do), or the record they were made
        # from was edited afterwards.  Only the present content counts.
        junk = seq[::-1] if seq[::-1] != seq else seq[1:] + seq[:1]
        a = max(1, n // 3)
        if route == "reassigned-after-rotation":
            r = contained(junk, "annotated-light", id) >> a
            r.seq = Seq(rm.rot_right(seq, a))
            return r
        if route == "reassigned-after-rc":
            r = contained(junk, "annotated-light", id).reverse_complement(id=True, name=True, annotations=True)
            r.seq = Seq(seq)
            return r
        src = contained(seq, "annotated-light", id)
        r = src >> a
        src.seq = Seq(junk)
        src.features.append(mk_feature([(0, 2, 1)], fid="later1"))
        src.id = "changed-later"
        KEEP.append(src)
        return r
    if route == "genbank":
        feats = [mk_feature([(1, min(5, n), 1)], fid="g0"), mk_feature([(0, 2, -1)], type="CDS", fid="g1"),
                 mk_feature([(n - 2, n, 1), (0, 2, 1)], type="CDS", fid="g2"), mk_feature([(1, 3, 1)], type="fuzzy_region", fid="g3")]
        r = CircularRecord(Seq(seq), id=id, name=id[:16], description="d", features=feats,
                           annotations={"topology": "circular", "molecule_type": "DNA", "date": "01-JAN-2020", "keywords": ["k"]})
        buf = io.StringIO()
        SeqIO.write(r, buf, "genbank")
        back = CircularRecord(SeqIO.read(io.StringIO(buf.getvalue()), "genbank"))
        back.id = id
        return back
    raise ValueError(route)


MOLTYPES = ["DNA", "ds-DNA", "other DNA", "genomic DNA", "unassigned DNA"]


def presentations(seq, id="r"):
    """The same circular plasmid handed over in every legal way: -> [(name, record)].  The first one is the canonical
    CircularRecord; the others differ in container class, sequence class, annotations and decorations only."""
    from Bio.Seq import MutableSeq
    from Bio.SeqRecord import SeqRecord
    n = len(seq)
    out = [("circular-record", crec(seq, id))]
    out.append(("seqrecord-topology-circular", SeqRecord(Seq(seq), id=id, name=id, annotations={"topology": "circular"})))
    out.append(("seqrecord-no-annotations", SeqRecord(Seq(seq), id=id, name=id)))
    out.append(("circular-record-mutable-seq", CircularRecord(MutableSeq(seq), id=id, name=id)))
    r = crec(seq, id)
    r.annotations["topology"] = "CIRCULAR"
    out.append(("circular-record-topology-upper", r))
    r = CircularRecord(Seq(seq), id=id, name=id, features=decorations(n), letter_annotations={"idx": list(range(n))},
                       annotations={"topology": "circular", "molecule_type": "DNA", "keywords": ["k"]}, dbxrefs=["db:1"])
    out.append(("circular-record-annotated", r))
    out.append(("circular-record-from-seqrecord", CircularRecord(SeqRecord(Seq(seq), id=id, name=id, annotations={"topology": "Circular"}))))
    out.append(("seqrecord-topology-Circular", SeqRecord(Seq(seq), id=id, name=id, annotations={"topology": "Circular"})))
    # every way flat files spell "this is DNA" (GenBank: DNA, ds-DNA; EMBL / INSDC: other DNA, genomic DNA, unassigned DNA)
    for j, mt in enumerate(MOLTYPES):
        ann = {"topology": "circular", "molecule_type": mt, "data_file_division": "SYN", "date": "01-JAN-2020", "accessions": [id],
               "sequence_version": 1, "source": "synthetic construct", "taxonomy": [], "comment": "one string\nof two lines" if j % 2 else ["a list", "of lines"]}
        out.append(("circular-record-molecule-type-" + mt.replace(" ", "-"), CircularRecord(Seq(seq), id=id, name=id, annotations=ann)))
    out.append(("seqrecord-topology-CIRCULAR-annotated", SeqRecord(Seq(seq), id=id, name=id, features=decorations(n), letter_annotations={"idx": list(range(n))},
                                                                 annotations={"topology": "CIRCULAR", "molecule_type": "DNA"})))
    return out


def linear_presentations(seq, id="r"):
    """The same text declared to be a linear molecule (only plain SeqRecords can say so): nothing may be read across its ends."""
    from Bio.SeqRecord import SeqRecord
    n = len(seq)
    out = []
    for spelling in ("linear", "Linear", "LINEAR"):
        out.append(("seqrecord-topology-" + spelling, SeqRecord(Seq(seq), id=id, name=id, annotations={"topology": spelling})))
    out.append(("seqrecord-topology-linear-annotated", SeqRecord(Seq(seq), id=id, name=id, features=decorations(n), letter_annotations={"idx": list(range(n))},
                                                               annotations={"topology": "linear", "molecule_type": "DNA"})))
    return out


# ----------------------------------------------------------------------------------------
# kit classes

@functools.lru_cache(None)
def kit_classes():
    """All concrete StructuredRecord subclasses defined in the five kit modules, in a stable order."""
    out = []
    for k in KIT_MODULES:
        mod = importlib.import_module("moclo.kits." + k)
        for name, obj in sorted(vars(mod).items()):
            if inspect.isclass(obj) and issubclass(obj, StructuredRecord) and obj.__module__ == mod.__name__:
                if obj.cutter is NotImplemented:
                    continue
                if issubclass(obj, _parts.AbstractPart) and obj.signature is NotImplemented:
                    continue
                try:
                    obj.structure()
                except Exception:
                    continue
                out.append(obj)
    return out


def class_by_name(name):
    for c in kit_classes():
        if c.__name__ == name:
            return c
    if name.startswith("GM_"):
        return generic_classes(name[3:])[0]
    if name.startswith("GV_"):
        return generic_classes(name[3:])[1]
    raise KeyError(name)


def is_vector_class(cls):
    return issubclass(cls, _vectors.AbstractVector)


def is_module_class(cls):
    return issubclass(cls, _modules.AbstractModule)


# ----------------------------------------------------------------------------------------
# structure literals -> instances

def tokenize_structure(p):
    """-> list of tokens ('lit', letter) | ('star', letter, lazy) | ('open',) | ('close',)"""
    toks = []
    i = 0
    while i < len(p):
        c = p[i]
        if c == "(":
            toks.append(("open",))
            i += 1
        elif c == ")":
            toks.append(("close",))
            i += 1
        elif p[i + 1:i + 3] == "*?":
            toks.append(("star", c, True))
            i += 3
        elif p[i + 1:i + 2] == "*":
            toks.append(("star", c, False))
            i += 2
        elif p[i + 1:i + 3] == "+?":
            toks.append(("star", c, True))        # one-or-more: instantiated like a starred atom (star_len >= 1 everywhere)
            i += 3
        elif p[i + 1:i + 2] == "+":
            toks.append(("star", c, False))
            i += 2
        elif p[i + 1:i + 2] == "?":
            toks.append(("lit", c))               # optional atom: instantiated as present
            i += 2
        else:
            toks.append(("lit", c))
            i += 1
    return toks


def instantiate(structure, fill_scheme=0, star_len=6, star_text=None, forbid=(), offset=0):
    """Instantiate a structure literal: concrete letters stay, IUPAC codes take letters from a
    scheme word (compatible with the code), each starred atom becomes star_text / star_len letters.
    Returns (text, groups) where groups are the (start, end) spans of the capture groups."""
    toks = tokenize_structure(structure)
    out = []
    spans = []
    stack = []
    pos = offset
    wi = 0
    w = _W[fill_scheme % len(_W)]
    for t in toks:
        if t[0] == "open":
            stack.append(len(spans))
            spans.append([len(out), None])
        elif t[0] == "close":
            spans[stack.pop()][1] = len(out)
        elif t[0] == "lit":
            c = t[1]
            if c in "ACGT":
                out.append(c)
            else:
                allowed = rm.IUPAC[c]
                # next scheme letter allowed by the code
                for _ in range(len(w)):
                    ch = w[(pos + wi) % len(w)]
                    wi += 1
                    if ch in allowed:
                        out.append(ch)
                        break
        else:
            txt = star_text if star_text is not None else word(fill_scheme, 11 + pos + wi, star_len, forbid)
            wi += len(txt)
            out.extend(txt)
    return "".join(out), [tuple(s) for s in spans]


# ----------------------------------------------------------------------------------------
# feature alphabets (locations as lists of (start, end, strand) in Biopython part order)

def simple_locations(n, strands=(1, -1, None), boundary_only=False):
    if boundary_only:
        pts = sorted(set(p for p in (0, 1, 2, n // 2, n - 2, n - 1, n) if 0 <= p <= n))
    else:
        pts = list(range(n + 1))
    out = []
    for a in pts:
        for b in pts:
            if a < b:
                for s in strands:
                    out.append([(a, b, s)])
    return out


def join_menu(n):
    """Two- and three-part locations: adjacent, gapped, origin-spanning (both spellings), mixed strand."""
    out = []
    if n >= 4:
        out += [
            [(0, 2, 1), (2, 4, 1)],                      # adjacent
            [(0, 1, 1), (3, 4, 1)],                      # gapped
            [(3, 4, -1), (0, 1, -1)],                    # gapped, minus strand (biological order)
            [(n - 2, n, 1), (0, 2, 1)],                  # origin-spanning, join(tail, head)
            [(0, 2, -1), (n - 2, n, -1)],                # same on the minus strand
            [(n - 2, n + 2, 1)],                         # origin-spanning, past-the-end coordinates
            [(n - 1, n + 1, -1)],
            [(0, 2, 1), (n - 2, n, -1)],                 # mixed strands
        ]
    if n >= 6:
        out += [
            [(0, 1, 1), (2, 3, 1), (4, 6, 1)],           # three parts
            [(n - 1, n, 1), (0, 1, 1), (2, 4, 1)],
        ]
    if n >= 8:
        out += [
            [(0, 3, 1), (4, 7, 1)],                      # parts long enough to straddle the origin by two letters after a rotation
            [(4, 7, -1), (0, 3, -1)],
            [(1, 4, 1), (n - 3, n, 1)],
            [(n - 3, n, -1), (1, 4, -1)],
        ]
    return out


def whole_length(n):
    return [("source", [(0, n, 1)]), ("source", [(0, n, None)]), ("misc_feature", [(0, n, 1)]), ("misc_feature", [(0, n, -1)])]


def mk_location(parts, fuzzy=False, operator="join"):
    from Bio.SeqFeature import BeforePosition, AfterPosition, WithinPosition, BetweenPosition, OneOfPosition, ExactPosition
    if fuzzy is True or fuzzy == "fuzzy":
        # GenBank `<a..>b`: the feature extends beyond what is annotated; the nucleotides denoted are the same
        locs = [FeatureLocation(BeforePosition(a), AfterPosition(b), strand=s) for (a, b, s) in parts]
    elif fuzzy == "within":
        # GenBank `(a.a+1)..(b-1.b)`: as an integer the start is its left and the end its right extreme
        locs = [FeatureLocation(WithinPosition(a, a, min(a + 1, b)), WithinPosition(b, max(b - 1, a), b), strand=s) for (a, b, s) in parts]
    elif fuzzy == "between":
        locs = [FeatureLocation(BetweenPosition(a, a, min(a + 1, b)), BetweenPosition(b, max(b - 1, a), b), strand=s) for (a, b, s) in parts]
    elif fuzzy == "oneof":
        locs = [FeatureLocation(OneOfPosition(a, [ExactPosition(a), ExactPosition(min(a + 1, b))]),
                                OneOfPosition(b, [ExactPosition(max(b - 1, a)), ExactPosition(b)]), strand=s) for (a, b, s) in parts]
    elif fuzzy == "mixedref":
        # GenBank `join(J00194.1:2..3,a..b,...)`: the first part lies on ANOTHER record (it denotes nothing here and does not move
        # with this record); the others are ordinary local parts
        locs = [FeatureLocation(1, 3, strand=parts[0][2], ref="J00194.1")] + [FeatureLocation(a, b, strand=s) for (a, b, s) in parts]
    else:
        locs = [FeatureLocation(a, b, strand=s) for (a, b, s) in parts]
    return locs[0] if len(locs) == 1 else CompoundLocation(locs, operator)


def qualifiers_for(fid):
    """Qualifier shapes, chosen by the number at the end of the feature id: list-valued (what the GenBank parser
    produces), plain-string / tuple values (what hand-written code and moclo's own provenance features use),
    the same value given twice, and an OrderedDict."""
    import collections
    digits = ""
    for ch in reversed(fid):
        if not ch.isdigit():
            break
        digits = ch + digits
    shape = int(digits) % 4 if digits else 0
    if shape == 1:
        return {"label": fid, "note": ("n-" + fid, "second")}
    if shape == 2:
        return {"label": [fid, fid], "note": ["n-" + fid, "second"]}
    if shape == 3:
        return collections.OrderedDict([("note", ["n-" + fid, "second"]), ("label", [fid])])
    return {"label": [fid], "note": ["n-" + fid, "second"]}


def mk_feature(parts, type="misc_feature", fid="f", qualifiers=None):
    """feature types starting with `fuzzy_` get fuzzy end points, types starting with `ordered_` an order(...) location"""
    q = qualifiers_for(fid) if qualifiers is None else qualifiers
    fuzzy = type.split("_", 1)[0] if type.split("_", 1)[0] in ("fuzzy", "within", "between", "oneof", "mixedref") else False
    loc = mk_location(parts, fuzzy=fuzzy, operator="order" if type.startswith("ordered_") else "join")
    return SeqFeature(loc, type=type, id=fid, qualifiers=q)


def decorations(n, light=False):
    """Features of every unusual but legal shape, spread around a record of length n (used to check that what a record is
    annotated with does not change what an assembly does with it).  `light`: two spots instead of seven."""
    feats = []
    if n < 12:
        return feats
    spots = sorted(set([0, n // 5, (2 * n) // 5, n // 2, (3 * n) // 5, (4 * n) // 5, n - 6])) if not light else sorted({n // 5, n - 6})
    types = ["misc_feature", "fuzzy_region", "within_region", "between_region", "oneof_region", "ordered_region", "CDS"]
    i = 0
    for a in spots:
        for t in types:
            parts = [(a, a + 2, 1), (a + 3, a + 5, 1)] if t in ("ordered_region", "CDS") else [(a, a + 5, -1 if i % 2 else 1)]
            feats.append(mk_feature(parts, type=t, fid="d%d" % i))
            i += 1
    feats.append(mk_feature([(n - 3, n, 1), (0, 3, 1)], type="CDS", fid="d%d" % i))          # across the origin
    feats.append(mk_feature([(n // 2, n // 2, 1)], type="misc_feature", fid="d%d" % (i + 1)))  # zero-length
    feats.append(SeqFeature(FeatureLocation(2, 9, strand=1, ref="X00001.1", ref_db="GenBank"), type="misc_feature", id="dref",
                            qualifiers={"label": "elsewhere"}))                                  # location in another record
    return feats


def feature_table(n, boundary_only=False):
    """-> list of (type, parts) : the full feature alphabet of a record of length n."""
    tab = [("misc_feature", p) for p in simple_locations(n, boundary_only=boundary_only)]
    tab += [("CDS", p) for p in join_menu(n)]
    tab += whole_length(n)
    # unusual but legal location shapes: fuzzy end points, order(...) instead of join(...)
    if n >= 6:
        tab += [("fuzzy_region", [(1, 4, 1)]), ("fuzzy_region", [(2, n - 1, -1)]), ("fuzzy_region", [(0, 2, 1), (3, 5, 1)]),
                ("ordered_region", [(0, 2, 1), (3, 5, 1)]), ("ordered_region", [(4, 6, -1), (1, 3, -1)]), ("fuzzy_region", [(n - 2, n, 1)]),
                ("within_region", [(1, 4, 1)]), ("within_region", [(n - 3, n, -1)]), ("between_region", [(2, 5, 1)]), ("between_region", [(0, n - 1, -1)]),
                ("oneof_region", [(1, 4, -1)]), ("oneof_region", [(n - 2, n, 1)]), ("oneof_region", [(0, 2, 1), (3, 5, 1)])]
    # zero-length features (between-base markers, GenBank `a^a+1`)
    tab += [("misc_feature", [(a, a, s)]) for a in (range(n + 1) if not boundary_only else sorted({0, 1, n // 2, n - 1, n})) for s in (1, -1)]
    # features *typed* "source" that do not cover the whole record (e.g. inherited provenance features)
    tab += [("source", [(0, b, 1)]) for b in range(1, n)]
    if n >= 4:
        tab += [("source", [(1, 3, 1)]), ("source", [(0, 2, -1)]), ("source", [(n - 2, n, 1)]), ("source", [(n - 2, n, 1), (0, 1, 1)])]
    return tab


def prime(classes=None):
    """Give every class its own compiled pattern (so that typing does not depend on what was
    typed before -- history effects are C06's business).  Returns the classes."""
    from moclo.regex import DNARegex
    classes = list(classes) if classes is not None else kit_classes()
    for c in classes:
        try:
            c._regex = DNARegex(c.structure())
        except Exception:
            pass            # a class whose structure cannot be had (abstract, or refused by the library itself): nothing to compile;
                            # the checks then see what the library answers for it
    return classes


def degenerate_records(enz, far_words=None):
    """A/T-only plasmids for an enzyme with a degenerate site: [(kind, near expansion, far word, string)].
    far_words=None -> the reverse complements of the first/last expansion (well-formed records)."""
    import itertools
    g = geometry_of(enzyme(enz))
    exps = ["".join(t) for t in itertools.product(*[rm.IUPAC[c] for c in g.site])]
    at = "ATTATAATATTTAATTAAATATAT"
    x, y = at[: g.off], at[3: 3 + g.off]
    o5 = ("ATTA" * 2)[: g.ov]
    o3 = ("TAAT" * 2)[: g.ov]
    body, bb, ph = "TATTA", "AATAT", "TTAAT"
    out = []
    for near in (exps[0], exps[-1]):
        fw = far_words if far_words is not None else [rm.revcomp(exps[0]), rm.revcomp(exps[-1])]
        for w in fw:
            out.append(("module", near, w, near + x + o5 + body + o3 + y + w + bb))
            out.append(("vector", near, w, o3 + bb + o5 + y + w + ph + near + x))
    return out


def long_word(length, seed=1, forbid=()):
    """deterministic aperiodic word of any length (linear congruential letters), free of the forbidden sites"""
    x = 12345 + 7919 * seed
    out = []
    for _ in range(length):
        x = (1103515245 * x + 12345) % (1 << 31)
        out.append("ACGT"[(x >> 16) & 3])
    s = "".join(out)
    words = set()
    for f in forbid:
        words.add(f.upper())
        words.add(rm.revcomp(f.upper()))
    s = list(s)
    changed = True
    while changed:
        changed = False
        t = "".join(s)
        for f in words:
            i = t.find(f)
            while i != -1:
                j = i + len(f) // 2
                s[j] = {"A": "C", "C": "A", "G": "T", "T": "G"}[s[j]]
                changed = True
                i = t.find(f, i + 1)
            if changed:
                break
    return "".join(s)


def content_menu(g, o5, o3):
    """bodies with 'awkward' content for a module with overhangs (o5, o3): homopolymers, dinucleotide repeats, GC-only,
    AT-only, partial sites, codons, the junction words themselves at either end, mixed case"""
    site, rsite = g.site, g.rsite
    menu = ["AAAAAAAAA", "CCCCCCCC", "GGGGGGG", "TTTTTTTTTT", "ATATATATAT", "GCGCGCGCGC", "GGCCGGCCGG", "AATTAATTAA",
            site[:-1] + "A", "T" + rsite[1:], site[1:] + "T", "ATGAAATAA", "TAGTGATAA",
            "AC" + o3, o5 + "CA", "CA" + o5, o3 + "AC", o3 + o3, o5 + o5, rm.revcomp(o5) + "A", "A" + rm.revcomp(o3),
            "acgtACGTacgt", "NNAC"]      # (ambiguity codes other than N are not DNA the structures accept: C17's business)
    return menu
