"""Embedded registries rebuilt from the working tree, loaded once per process (before forking)."""
from . import boot

_TABLE = None
REGISTRIES = [("ytk", "YTKRegistry", "ytk"), ("ptk", "PTKRegistry", "ytk"), ("cidar", "CIDARRegistry", "cidar"),
              ("ecoflex", "EcoFlexRegistry", "ecoflex"), ("plant", "PlantRegistry", "plant")]


def registry_objects():
    import importlib
    boot.build_registries()
    out = {}
    for name, clsname, modname in REGISTRIES:
        mod = importlib.import_module("moclo.registry." + modname)
        out[name] = getattr(mod, clsname)()
    return out


def table():
    """-> list of dict(reg, id, seq, cls (class name the registry assigns), item)"""
    global _TABLE
    if _TABLE is None:
        rows = []
        for name, reg in registry_objects().items():
            for key in sorted(reg):
                item = reg[key]
                rows.append(dict(reg=name, id=key, seq=str(item.entity.record.seq), cls=type(item.entity).__name__, item=item))
        _TABLE = rows
    return _TABLE


def by_id(reg, key):
    for r in table():
        if r["reg"] == reg and r["id"] == key:
            return r
    raise KeyError((reg, key))
