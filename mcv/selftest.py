"""Reference models versus hand-computed examples and the kit authors' own plasmid maps."""
import os

from . import refmodel as rm


def _eq(a, b, what):
    if a != b:
        raise AssertionError("selftest {}: {!r} != {!r}".format(what, a, b))


def run(quiet=True, deep=False):
    # -- strings ------------------------------------------------------------------------
    _eq(rm.revcomp("GGTCTCa"), "tGAGACC", "revcomp")
    _eq(rm.revcomp("RYKMBVDHN"), "NDHBVKMRY", "revcomp iupac")
    _eq(rm.rot_right("ABCDE", 2), "DEABC", "rot_right")
    _eq(rm.canon_rot("TACGA"), "ACGAT", "canon_rot")
    _eq(rm.canon_rot("BAAB"), "AABB", "canon_rot ties")
    _eq(rm.circ_find_all("TCxxGG", "GGTC"), [4], "circ_find wraps")
    _eq(rm.circ_find_all("AAAA", "AA"), [0, 1, 2, 3], "circ_find overlapping")
    assert rm.iupac_match("NNRY", "acGT") and not rm.iupac_match("R", "C")

    # -- geometry / digestion: tests/test_assembly.py's BpiI examples (hand-annotated there) ---
    g = rm.KIT_GEOMETRY["BpiI"]
    vec = "CCATGCTTGTCTTCCACAGAAGACTTCGTAGG"   # ATGC ---- CGTA
    m1 = "GAAGACTTATGCTATACGTATTGTCTTC"         # module ATGC .. CGTA
    m2 = "GAAGACTTAAAACACACCCCTTGTCTTC"         # module AAAA .. CCCC (unused)
    fv = rm.site_free_fragment(vec, g)
    _eq((fv["o5"], fv["o3"]), ("CGTA", "ATGC"), "vector overhangs")
    _eq(fv["text"], "CGTAGGCC", "vector retained fragment")
    fm = rm.site_free_fragment(m1, g)
    _eq((fm["o5"], fm["o3"], fm["text"]), ("ATGC", "CGTA", "ATGCTATA"), "module fragment")
    r = rm.golden_gate(vec, [m1, m2], g)
    _eq(r[0], "product", "gg kind")
    _eq(rm.canon_rot(r[1]), rm.canon_rot("CGTAGGCC" + "ATGCTATA"), "gg product")
    _eq((r[2], r[3]), ([0], [1]), "gg order/unused")
    _eq(rm.golden_gate(vec, [m2], g)[:2], ("stall", "ATGC"), "gg stall")
    # rotation invariance of the model itself
    for k in range(len(vec)):
        rr = rm.golden_gate(rm.rot_right(vec, k), [rm.rot_right(m1, k % len(m1))], g)
        _eq(rm.canon_rot(rr[1]), rm.canon_rot("CGTAGGCCATGCTATA"), "gg rotation %d" % k)
    # strand symmetry of the model
    rr = rm.golden_gate(rm.revcomp(vec), [rm.revcomp(m1)], g)
    _eq(rm.canon_rot(rr[1]), rm.canon_rot(rm.revcomp("CGTAGGCCATGCTATA")), "gg strand")

    # -- overhang graph ----------------------------------------------------------------------
    o = rm.assembly_outcome("CGTA", "ATGC", [("ATGC", "CGTA"), ("AAAA", "CCCC")])
    _eq((o["kind"], o["chain"], o["unused"]), ("product", [0], [1]), "outcome product")
    o = rm.assembly_outcome("CGTA", "ATGC", [("ATGC", "CGTA"), ("ATGC", "CGTA")])
    _eq((o["kind"], o["admissible"]), ("error", {"DuplicateModules"}), "outcome duplicate")
    o = rm.assembly_outcome("CGTA", "ATGC", [("ATGA", "CGTA")])
    _eq((o["kind"], o["admissible"], o["stall"]), ("error", {"MissingModule"}, "ATGC"), "outcome missing")
    o = rm.assembly_outcome("ATGC", "ATGC", [("ATGC", "ATGC")])
    assert "InvalidSequence" in o["admissible"]
    o = rm.assembly_outcome("CGTA", "GTAC", [("GTAC", "CGTA")])   # palindromic start, alone: fine
    _eq(o["kind"], "product", "palindromic start alone")
    o = rm.assembly_outcome("CGTA", "ATGC", [("ATGC", "GGGG"), ("GCAT", "CGTA")])  # revcomp starts
    assert o["kind"] == "error" and "DuplicateModules" in o["admissible"]

    # -- pattern matcher: tests/test_regex.py ----------------------------------------------------
    m = rm.Matcher("AA(NN)").search("ATGCAAGCAATA", circular=False)
    _eq((m["start"], m["end"], m["spans"][1], m["groups"][1]), (4, 8, (6, 8), "GC"), "matcher linear")
    m = rm.Matcher("AA(NN)").search("ATGCAGCATA", circular=True)
    _eq((m["spans"][0], m["spans"][1], m["groups"][1]), ((9, 13), (11, 13), "TG"), "matcher circular")
    _eq(rm.Matcher("A(N*)C(N*?)G").search("TAGCGCGT", False)["groups"], ["AGCGCG", "GCG", "", ], "greedy/lazy")
    _eq(rm.Matcher("A(N*?)C(N*)G").search("TAGCGCGT", False)["groups"], ["AGCGCG", "G", "GC"], "lazy/greedy")
    _eq(rm.Matcher("GGTCTCN(NNNN)(NN*N)(NNNN)NGAGACC").search("ccGGTCTCaACGTttttGGGGtGAGACCaa", True)["groups"][1:],
        ["ACGT", "tttt", "GGGG"], "module structure")
    assert rm.Matcher("AAAA").search("AAA", True) is None          # never more than one turn
    assert rm.Matcher("AN*A").search("ACA", True)["end"] == 3

    # -- feature geometry ----------------------------------------------------------------------
    _eq(rm.denoted([(8, 12, 1)], 10), [(8, 1), (9, 1), (0, 1), (1, 1)], "denoted past the end")
    _eq(rm.denoted([(1, 3, -1)], 10), [(2, -1), (1, -1)], "denoted minus strand")
    _eq(rm.rotate_denoted([(9, 1)], 10, 3), [(2, 1)], "rotate")
    _eq(rm.revcomp_denoted([(0, 1), (1, 1)], 10), [(9, -1), (8, -1)], "revcomp denoted")

    if deep:
        ground_truth(quiet)


def ground_truth(quiet=True):
    """The Golden Gate model must reproduce the CIDAR authors' pJ02B2Rm_AE / pJ02B2Rm_EF maps from
    DVK_AE / DVK_EF plus four parts (plain GenBank parsing; no moclo code involved)."""
    from . import boot
    from Bio import SeqIO
    src = boot.registry_sources()["cidar"]

    def seq(k):
        return str(SeqIO.read(src[k], "genbank").seq)
    g = rm.KIT_GEOMETRY["BsaI"]
    for prod, vec, mods in (("pJ02B2Rm_AE", "DVK_AE", ("J23102_AB", "BCD2_BC", "E1010m_CD", "B0015_DE")),
                            ("pJ02B2Rm_EF", "DVK_EF", ("J23102_EB", "BCD2_BC", "E1010m_CD", "B0015_DF"))):
        r = rm.golden_gate(seq(vec), [seq(m) for m in reversed(mods)], g)
        _eq(r[0], "product", "ground truth kind " + prod)
        if not rm.same_circle(r[1].upper(), seq(prod).upper()):
            raise AssertionError("selftest ground truth: model product differs from " + prod)
        _eq(r[2], [3, 2, 1, 0], "ground truth order")
    if not quiet:
        print("ground truth: CIDAR pJ02B2Rm_AE / pJ02B2Rm_EF reproduced by refmodel.golden_gate")
