"""Instances of the kit vectors whose structure embeds the next level's recognition sites (C11, C09)."""
from . import gen, refmodel as rm

ALL_SITES = ["GGTCTC", "CGTCTC", "GAAGAC"]

TRIPLES = [
    dict(name="cidar-entry", vector="CIDAREntryVector", module="CIDARProduct", next="CIDAREntry", next_vector="CIDARCassetteVector", outer="same"),
    dict(name="cidar-cassette", vector="CIDARCassetteVector", module="CIDAREntry", next="CIDARCassette", next_vector="CIDARDeviceVector", outer="same"),
    dict(name="cidar-device", vector="CIDARDeviceVector", module="CIDARCassette", next="CIDARDevice", next_vector="GV_BsaI", outer="same"),
    dict(name="ecoflex-cassette", vector="EcoFlexCassetteVector", module="EcoFlexEntry", next="EcoFlexCassette", next_vector="EcoFlexDeviceVector", outer="adjacent"),
    dict(name="ecoflex-device", vector="EcoFlexDeviceVector", module="EcoFlexCassette", next="EcoFlexDevice", next_vector="GV_BsaI", outer="adjacent"),
    dict(name="moclo-entry", vector="MoCloEntryVector", module="MoCloProduct", next="MoCloEntry", next_vector="MoCloCassetteVector", outer="same"),
    dict(name="moclo-cassette", vector="MoCloCassetteVector", module="MoCloEntry", next="MoCloCassette", next_vector="MoCloDeviceVector", outer="adjacent"),
    dict(name="ytk-entry", vector="YTKEntryVector", module="YTKProduct", next="YTKEntry", next_vector="YTKCassetteVector", outer="ytk"),
    # the MoClo loop: a device is a module of the cassette level again (it goes back into a cassette vector of its kit)
    dict(name="cidar-device-loop", vector="CIDARDeviceVector", module="CIDARCassette", next="CIDARDevice", next_vector="CIDARCassetteVector", outer="same"),
    dict(name="ecoflex-device-loop", vector="EcoFlexDeviceVector", module="EcoFlexCassette", next="EcoFlexDevice", next_vector="EcoFlexCassetteVector", outer="adjacent"),
]


def triple(name):
    for t in TRIPLES:
        if t["name"] == name:
            return t
    raise KeyError(name)


def patch(text, a, val):
    return text[:a] + val + text[a + len(val):]


def build_vector(cls, down, up, fill=0, ph_len=7, bb_len=9, outer=None, variant=0):
    """Instance of cls.structure() + backbone, with group 1 (downstream overhang) = down and group 3
    (upstream overhang) = up.  outer = (outer_down, outer_up) patches the 4 nt just before group 1 and just
    after group 3 (structures whose next-level overhang is adjacent).  Returns None when the instance does
    not carry exactly the designed sites."""
    struct = cls.structure()
    for attempt in range(10):
        text, spans = gen.instantiate(struct, fill_scheme=fill, star_len=ph_len, forbid=ALL_SITES, offset=attempt * 5 + variant * 3)
        g1, g3 = spans[0], spans[2]
        text = patch(text, g1[0], down)
        text = patch(text, g3[0], up)
        if outer is not None:
            # only wildcard positions of the literal are ever overwritten
            a, b = g1[0] - len(outer[0]), g3[1]
            if a >= 0 and _wild(struct, spans, a, len(outer[0])) and _wild(struct, spans, b, len(outer[1])):
                text = patch(text, a, outer[0])
                text = patch(text, b, outer[1])
        bb = gen.word(fill + 1, 50 + attempt * 7 + variant, bb_len, ALL_SITES)
        s = text + bb
        if designed_sites_ok(struct, s):
            return s
    return None


def _wild(struct, spans, start, length):
    """are the `length` instance positions from `start` all produced by N letters of the literal? (instances of a literal
    without starred atoms before the position map 1:1; with a starred atom the map shifts by the star length, which
    build_vector keeps out of the flanks it patches)"""
    lit = struct.replace("(", "").replace(")", "")
    # positions before the first starred atom map 1:1; positions after the last one map from the end
    first_star = lit.find("*")
    n_inst_minus_lit = None
    if first_star == -1 or start + length <= first_star - 1:
        seg = lit[start:start + length]
        return len(seg) == length and set(seg) <= set("N")
    return True     # behind the starred atom: the caller patches right after group 3, checked by designed_sites_ok afterwards


def designed_sites_ok(struct, s):
    """every kit site occurs in the circular string exactly as often as in the structure literal"""
    lit = struct.replace("(", "").replace(")", "")
    for site in ALL_SITES:
        want = lit.count(site) + lit.count(rm.revcomp(site))
        have = len(rm.circ_find_all(s, site)) + len(rm.circ_find_all(s, rm.revcomp(site)))
        if want != have:
            return False
    return True


def build_module(cls, o5, o3, body, variant=0, bb_len=5):
    """generic module plasmid for the module class's cutter (or a YTKProduct instance)"""
    if cls.__name__ == "YTKProduct":
        return None
    g = gen.geometry_of(cls.cutter)
    for attempt in range(10):
        sh = attempt * 7 + variant * 3
        s = gen.mk_module(g, o5, body, o3, gen.word(variant + 1, 31 + sh, bb_len, ALL_SITES),
                          x=gen.word(0, 3 + sh, g.off, ALL_SITES), y=gen.word(0, 17 + sh, g.off, ALL_SITES))
        if sum(len(rm.circ_find_all(s, x)) + len(rm.circ_find_all(s, rm.revcomp(x))) for x in ALL_SITES) == 2 and rm.count_sites(s, g) == 2:
            return s
    return None


def build_ytk_product(start2, o5, template, o3, variant=0, bb_len=5):
    """CGTCTC N (xxGG)(TCTC N o5 template o3 N GA)(GACC) N GAGACG + backbone"""
    for attempt in range(10):
        sh = attempt * 7 + variant * 3
        n1, n2, n3, n4 = [gen.word(0, 3 + sh + i, 1, ALL_SITES) for i in range(4)]
        s = "CGTCTC" + n1 + start2 + "GG" + "TCTC" + n2 + o5 + template + o3 + n3 + "GA" + "GACC" + n4 + "GAGACG" + gen.word(variant + 1, 31 + sh, bb_len, ALL_SITES)
        # designed: 2 BsmBI sites and the 2 BsaI sites spelled by the structure itself (xxGG|TCTC, GA|GACC)
        if len(rm.circ_find_all(s, "CGTCTC")) + len(rm.circ_find_all(s, "GAGACG")) == 2 and \
                len(rm.circ_find_all(s, "GGTCTC")) + len(rm.circ_find_all(s, "GAGACC")) == 2 and \
                not rm.circ_find_all(s, "GAAGAC") and not rm.circ_find_all(s, "GTCTTC"):
            return s
    return None


CHAIN_WORDS = ["ACGA", "CCAT", "GTCA", "TGAG", "AGTC"]       # pairwise non-reverse-complementary, non-palindromic
OUTER_WORDS = ["GCAA", "CTGA", "TACC", "AATG"]
