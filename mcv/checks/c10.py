"""C10 -- Literature citations survive assembly with consistent numbering.  (E1 + E2)

Every assignment, over a small alphabet, of reference lists (0-3 references, shared between records or
unique) and citing features (inside / outside the retained fragment, citing none / one / several references)
to the vector and the first module of k <= 2 assemblies; each followed by repeated calls on the same objects.
"""
import itertools
import re as _re   # only used to recognise the GenBank '[n]' form in the *product*

from .. import asm, gen, refmodel as rm, snapshot
from ..engine import HarnessError
from . import c07
from Bio.Seq import Seq
from moclo.record import CircularRecord

ID = "C10"
TITLE = "citations survive with consistent numbering"
RULE = ("one scenario per (k, vector reference/citation configuration, module configuration, number of repeated calls); "
        "non-trivial when at least one retained feature cites a reference; distinct by construction")
ASSUMPTIONS = [
    "no two equal references inside one record; every /citation index of the inputs is valid (DESIGN 5.6)",
    "'containing each cited reference once': every cited reference appears exactly once and no reference appears twice; uncited extras are not flagged",
]
ENZ = "BsaI"
# reference pools: numbers are identities of reference *contents*; equal numbers in two records = shared reference
LONG = list(range(21, 33))       # a 12-entry list: two-digit citation indices
V_REFS = [[], [1], [1, 2], [2, 1, 3], LONG]
M_REFS = [[], [1], [4], [4, 1], [2, 4, 1], [1] + LONG[:11]]
KEPT_CITES = [None, [1], [2], [1, 2], [2, 1], [3], [1, 3], [1, 1], [2, 1, 2]]
KEPT2_CITES = [None, "last", "first"]
DROPPED_CITES = [None, [1]]


def bounds(tier):
    return dict(k=[1, 2], vector_refs=V_REFS, module_refs=M_REFS, kept_feature_cites=KEPT_CITES, second_kept_feature=KEPT2_CITES,
                dropped_feature_cites=DROPPED_CITES, repeated_calls=2 if tier == "quick" else 3,
                rotations=[0] if tier == "quick" else [0, "wrapping"], record_ids=["distinct", "one shared identifier", "none (library default)"],
                record_shapes="k=2, both kept features cited, nothing dropped: plain-string / tuple qualifier values on the cited features; fully annotated records; each at both rotations")


def goals(tier):
    return ["records-sharing-an-identifier", "two-digit-citation-index", "shared-reference-merged", "several-citations-on-one-feature", "renumbered", "dropped-feature-cites", "no-citations", "repeated-call", "cited-feature-with-unusual-qualifiers", "cited-records-fully-annotated", "records-annotated-after-a-first-use"]


def configs(refs_menu):
    out = []
    for refs in refs_menu:
        n = len(refs)
        if n > 3:
            for kept in ([10], [12], [11, 2]):
                for kept2 in (None, [n]):
                    out.append(dict(refs=refs, kept=kept, kept2=kept2, dropped=None))
            continue
        for kept in KEPT_CITES:
            if kept and max(kept) > n:
                continue
            for kept2 in KEPT2_CITES:
                if kept2 and n == 0:
                    continue
                for dropped in DROPPED_CITES:
                    if dropped and max(dropped) > n:
                        continue
                    k2 = None if not kept2 else ([n] if kept2 == "last" else [1])
                    out.append(dict(refs=refs, kept=kept, kept2=k2, dropped=dropped))
    return out


def build(k, vc, mc, rotated=False, strip=False, ids="distinct", shape=None):
    g = gen.geometry_of(gen.enzyme(ENZ))
    M, V = gen.generic_classes(ENZ)
    base = asm.base_scenario(ENZ, k)
    vec, mods = asm.pieces_to_plasmids(base)
    L = len(g.site)
    t0 = L + g.off
    vb = len(base["vbb"])
    b1 = len(base["bodies"][0])

    def cites(c):
        return None if (strip or not c) else c

    def refs(c):
        return None if (strip or not c["refs"]) else [c07.ref(i) for i in c["refs"]]
    vfeats = [c07.feat(1, g.ov + vb - 1, 1, "misc_feature", "v-kept", cites(vc["kept"])),
              c07.feat(0, 3, -1, "CDS", "v-kept2", cites(vc["kept2"])),
              c07.feat(g.ov + vb + g.ov + g.off + 1, g.ov + vb + g.ov + g.off + L + 2, -1, "misc_feature", "v-dropped", cites(vc["dropped"]))]
    mfeats = [c07.feat(t0 + 1, t0 + g.ov + b1 - 1, 1, "CDS", "m-kept", cites(mc["kept"])),
              c07.feat(t0, t0 + 2, -1, "misc_feature", "m-kept2", cites(mc["kept2"])),
              c07.feat(len(mods[0]) - 2, len(mods[0]), 1, "misc_feature", "m-dropped", cites(mc["dropped"]))]

    def rec(name, s, feats, rf, rot):
        ann = {"topology": "circular"}
        if rf:
            ann["references"] = rf
        la = None
        if shape == "string-qualifiers":
            # what hand-written code produces: plain-string and tuple qualifier values next to the citation list
            for f in feats:
                f.qualifiers["label"] = f.qualifiers["label"][0]
                f.qualifiers["note"] = ("first", "second")
        elif shape == "annotated":
            feats = list(feats) + gen.decorations(len(s))
            la = {"idx": list(range(len(s)))}
            ann["keywords"] = ["k"]
        if la is not None and ids != "default":
            rid = name if ids == "distinct" else "plasmid"
            r = CircularRecord(Seq(s), id=rid, name=rid, features=feats, annotations=ann, letter_annotations=la, dbxrefs=["db:" + name])
            return (r >> rot) if rotated else r
        if ids == "default":
            r = CircularRecord(Seq(s), features=feats, annotations=ann)           # Biopython's default identifier
        else:
            rid = name if ids == "distinct" else "plasmid"                        # several records filed under one identifier
            r = CircularRecord(Seq(s), id=rid, name=rid, features=feats, annotations=ann)
        return (r >> rot) if rotated else r
    records = {"v": rec("v", vec, vfeats, refs(vc), 2), "m1": rec("m1", mods[0], mfeats, refs(mc), len(mods[0]) - t0 - 2)}
    if k == 2:
        records["m2"] = rec("m2", mods[1], [c07.feat(t0, t0 + 3, 1, "misc_feature", "m2-kept")], None, 3)
    ents = {n: (V if n == "v" else M)(r) for n, r in records.items()}
    return records, ents


def ref_id(r):
    """content identity of a Reference object (title carries the pool number)"""
    from Bio.SeqFeature import Reference
    return r.title if isinstance(r, Reference) else "not-a-reference:" + repr(r)[:40]


def check(st, scn):
    k, vc, mc, calls, rotated = scn["k"], scn["vc"], scn["mc"], scn["calls"], scn.get("rotated", False)
    gen.prime(list(gen.generic_classes(ENZ)))
    records, ents = build(k, vc, mc, rotated, ids=scn.get("ids", "distinct"), shape=scn.get("shape"))
    plain_records, plain_ents = build(k, vc, mc, rotated, strip=True, ids=scn.get("ids", "distinct"), shape=scn.get("shape"))
    order = ["m1"] + (["m2"] if k == 2 else [])
    if scn.get("late"):
        # the entities first take part in an assembly while their records cite nothing; the records are then annotated in
        # place (citations and reference lists copied over from the cited twins) and the SAME entities are used from here on
        late_records, late_ents = build(k, vc, mc, rotated, strip=True, ids=scn.get("ids", "distinct"), shape=scn.get("shape"))
        first = asm.run_assemble(late_ents["v"], [late_ents[n] for n in order])
        if first.kind != "product":
            st.violation("assembly", "citation-free-assembly-fails-" + str(first.exc_name), scn, "product", first.brief())
            return False
        for n_, r_ in late_records.items():
            twin = records[n_]
            if "references" in twin.annotations:
                r_.annotations["references"] = twin.annotations["references"]
            for f_, g_ in zip(r_.features, twin.features):
                if "citation" in g_.qualifiers:
                    f_.qualifiers["citation"] = list(g_.qualifiers["citation"])
        records, ents = late_records, late_ents
    before = {n: snapshot.record_snapshot(r) for n, r in records.items()}
    po = asm.run_assemble(plain_ents["v"], [plain_ents[n] for n in order])
    if po.kind != "product":
        # (the same plasmids without a single citation: a failure here is not about citations, but it still is an answer)
        st.violation("assembly", "citation-free-assembly-fails-" + str(po.exc_name), scn, "product", po.brief())
        return False
    # model: which retained features cite which reference contents
    expect = {}
    for label, c, pool in (("v-kept", vc["kept"], vc["refs"]), ("v-kept2", vc["kept2"], vc["refs"]),
                           ("m-kept", mc["kept"], mc["refs"]), ("m-kept2", mc["kept2"], mc["refs"])):
        expect[label] = ["Title %d" % pool[i - 1] for i in (c or [])]
    cited = []
    for v in expect.values():
        for t in v:
            if t not in cited:
                cited.append(t)
    ok = True
    for call in range(calls):
        o = asm.run_assemble(ents["v"], [ents[n] for n in order])
        sc = dict(scn, call=call + 1)
        if o.kind != "product":
            st.violation("assembly", "cited-inputs-do-not-assemble-" + str(o.exc_name) + ("-on-repeated-call" if call else ""), sc, "product", o.brief())
            return False
        prod = o.record
        if str(prod.seq) != po.seq:
            st.violation("assembly", "sequence-differs-from-citation-free-assembly", sc, po.seq, str(prod.seq))
            ok = False
        refs = prod.annotations.get("references", []) or []
        titles = [ref_id(r) for r in refs]
        if len(set(titles)) != len(titles):
            st.violation("references", "reference-listed-twice", sc, cited, titles)
            ok = False
        for t in cited:
            if titles.count(t) != 1:
                st.violation("references", "cited-reference-missing-from-product", sc, cited, titles)
                ok = False
                break
        # a reference arrives as it was in the input that cited it (authors, journal, ids, base range)
        src = {}
        for r_ in records.values():
            for x_ in r_.annotations.get("references", []) or []:
                src.setdefault(ref_id(x_), snapshot._plain(x_))
        for x_ in refs:
            if ref_id(x_) in src and snapshot._plain(x_) != src[ref_id(x_)]:
                st.violation("references", "reference-altered-on-its-way-into-the-product", sc, src[ref_id(x_)], snapshot._plain(x_))
                ok = False
                break
        feats = {asm.qual1(f, "label", "?"): f for f in prod.features if f.type != "source"}
        for label, want in expect.items():
            f = feats.get(label)
            if f is None:
                st.violation("features", "cited-feature-lost", sc, label, sorted(feats))
                ok = False
                continue
            got = f.qualifiers.get("citation", [])
            if not want:
                if got:
                    st.violation("citations", "citation-invented", sc, [], got)
                    ok = False
                continue
            res = []
            bad = False
            for c in got:
                m = _re.fullmatch(r"\[(\d+)\]", c) if isinstance(c, str) else None
                if m is None:
                    st.violation("citations", "citation-not-in-bracketed-index-form", sc, "[n]", repr(c)[:60])
                    bad = True
                    ok = False
                    break
                i = int(m.group(1))
                if not (1 <= i <= len(refs)):
                    st.violation("citations", "citation-index-out-of-range", sc, "1..%d" % len(refs), i)
                    bad = True
                    ok = False
                    break
                res.append(titles[i - 1])
            if not bad and res != want:
                st.violation("citations", "citation-points-to-another-reference", sc, want, res)
                ok = False
        # non-citation content equals the citation-free assembly
        a = snapshot.record_snapshot(prod)
        b = snapshot.record_snapshot(po.record)
        for s_ in (a, b):
            s_["annotations"] = [x for x in s_["annotations"]["__dict__"] if x[0] != "references"]
            for f in s_["features"]:
                f["qualifiers"]["__dict__"] = [x for x in f["qualifiers"]["__dict__"] if x[0] != "citation"]
        d = snapshot.diff(b, a)
        if d:
            st.violation("assembly", "non-citation-content-differs-from-citation-free-assembly", sc, "equal", d)
            ok = False
        after = {n: snapshot.record_snapshot(r) for n, r in records.items()}
        d = snapshot.diff(before, after)
        if d:
            st.violation("inputs", "input-citations-changed" + ("-after-repeated-call" if call else ""), sc, "unchanged", d)
            return False
    return ok


def units(tier):
    us = []
    vcs = configs(V_REFS)
    for k in (1, 2):
        for i in range(len(vcs)):
            us.append((k, i))
    return us


def run_unit(unit, st, tier):
    k, vi = unit
    vc = configs(V_REFS)[vi]
    b = bounds(tier)
    for mc in configs(M_REFS):
        for rotated in ([False] if tier == "quick" else [False, True]):
            scn = dict(k=k, vc=vc, mc=mc, calls=b["repeated_calls"], rotated=rotated)
            check(st, scn)
            st.scenario("cited" if (vc["kept"] or vc["kept2"] or mc["kept"] or mc["kept2"]) else "uncited", None, calls=b["repeated_calls"] + 1)
            if vc["kept"] or vc["kept2"] or mc["kept"] or mc["kept2"]:
                st.nontrivial += 1
            else:
                st.goal("no-citations")
            vt = set(vc["refs"][i - 1] for c in (vc["kept"], vc["kept2"]) if c for i in c)
            mt = set(mc["refs"][i - 1] for c in (mc["kept"], mc["kept2"]) if c for i in c)
            if vt & mt:
                st.goal("shared-reference-merged")
            if any(c and len(c) > 1 for c in (vc["kept"], mc["kept"])):
                st.goal("several-citations-on-one-feature")
            if mc["kept"] and mc["refs"] and mc["refs"][mc["kept"][0] - 1] != mc["kept"][0]:
                st.goal("renumbered")
            if vc["dropped"] or mc["dropped"]:
                st.goal("dropped-feature-cites")
            if any(c and max(c) >= 10 for c in (vc["kept"], vc["kept2"], mc["kept"], mc["kept2"])):
                st.goal("two-digit-citation-index")
            st.goal("repeated-call")
            # records sharing an identifier (or having none): same expectations
            if k == 2 and vc["kept"] and mc["kept"] and len(vc["refs"]) <= 3 and len(mc["refs"]) <= 3 and not rotated:
                for ids in ("same", "default"):
                    s2 = dict(scn, ids=ids)
                    check(st, s2)
                    st.scenario("cited", None, calls=b["repeated_calls"] + 1)
                    st.nontrivial += 1
                    st.goal("records-sharing-an-identifier")
            # entities that were already used while their records cited nothing
            if k == 2 and (vc["kept"] or mc["kept"]) and not mc["dropped"] and not vc["dropped"] and len(vc["refs"]) <= 3 and len(mc["refs"]) <= 3 and not rotated:
                check(st, dict(scn, late=True))
                st.scenario("cited", None, calls=b["repeated_calls"] + 2)
                st.nontrivial += 1
                st.goal("records-annotated-after-a-first-use")
            # unusual but legal record contents next to the citations: same expectations, at both rotations
            if k == 2 and vc["kept"] and mc["kept"] and not mc["dropped"] and not vc["dropped"] and len(vc["refs"]) <= 3 and len(mc["refs"]) <= 3 and not rotated:
                for shape in ("string-qualifiers", "annotated"):
                    for rot2 in (False, True):
                        s2 = dict(scn, shape=shape, rotated=rot2)
                        check(st, s2)
                        st.scenario("cited", None, calls=b["repeated_calls"] + 1)
                        st.nontrivial += 1
                        st.goal("cited-feature-with-unusual-qualifiers" if shape == "string-qualifiers" else "cited-records-fully-annotated")
    st.sample(dict(k=k, vc=vc, mc=configs(M_REFS)[-1], calls=2))


def replay(scn, sub, st):
    s = {k: v for k, v in scn.items() if k != "call"}
    check(st, s)
