"""C15 -- A circular record behaves as a circle, never as a line.  (E1)

Sub-spaces: contains (every sequence x every query, brute-force circular model), slice (every
slice bound / step), add (operand menu on both sides, and +=), ctor (topology spellings), copy
(every copy-then-mutate operation).
"""
import copy
import itertools

from .. import gen, refmodel as rm, snapshot
from Bio.Seq import Seq
from Bio.SeqRecord import SeqRecord
from Bio.SeqFeature import SeqFeature, FeatureLocation
from moclo.record import CircularRecord

ID = "C15"
TITLE = "a circular record behaves as a circle"
RULE = ("every (sequence, query) pair, every slice, every operand pair, every topology spelling and every mutation is "
        "enumerated once; a membership case is non-trivial when the query is non-empty and no longer than n+2 and "
        "(it is contained only across the origin, or is not contained although each of its letters occurs); all other "
        "sub-spaces count every case")
ASSUMPTIONS = [
    "queries are str (the property speaks of strings)",
    "slicing does not look at letter values: one word per length stands for all (parametricity)",
]


CASE_MAX_LEN = {"quick": 5, "thorough": 6}


def bounds(tier):
    if tier == "quick":
        return dict(contains=dict(alphabet="ACGT", max_len=5, query_len="0..n+2"), extra_contains=dict(alphabet="AC", lens=[6, 7]),
                    letter_case=dict(alphabet="AaC", max_len=CASE_MAX_LEN["quick"]),
                    slice_len=list(range(1, 6)), slice_bounds="None, -n-2..n+2", steps=[None, 1, 2, -1])
    return dict(contains=dict(alphabet="ACGT", max_len=6, query_len="0..n+2"), extra_contains=dict(alphabet="AC", lens=[7, 8, 9, 10]),
                letter_case=dict(alphabet="AaC", max_len=CASE_MAX_LEN["thorough"]),
                slice_len=list(range(1, 9)), slice_bounds="None, -n-2..n+2", steps=[None, 1, 2, 3, -1, -2])


def goals(tier):
    return ["contained-only-across-origin", "query-longer-than-record-rejected", "query-equal-length-rotation", "empty-query",
            "slice-cases", "add-cases", "ctor-linear-rejected", "ctor-circular-accepted", "copy-mutations", "membership-after-sequence-replaced"]


def units(tier):
    b = bounds(tier)
    us = []
    for n in range(1, b["contains"]["max_len"] + 1):
        total = 4 ** n
        chunks = 1 if total <= 64 else (16 if total <= 1024 else 64)
        for c in range(chunks):
            us.append(("contains", ("ACGT", n, c, chunks)))
    for n in b["extra_contains"]["lens"]:
        chunks = 4 if n <= 8 else 16
        for c in range(chunks):
            us.append(("contains", ("AC", n, c, chunks)))
    # letter case: records and queries over one nucleotide in both cases and a second one (membership is about the letters as they
    # are written -- a record in lower case contains its own substrings, and nothing it does not spell)
    for n in range(1, CASE_MAX_LEN[tier] + 1):
        us.append(("contains", ("AaC", n, 0, 1)))
    for n in b["slice_len"]:
        us.append(("slice", n))
    for c in range(8):
        us.append(("history", (c, 8)))
    us.append(("add", None))
    us.append(("ctor", None))
    us.append(("copy", None))
    return us


def space_size(tier):
    b = bounds(tier)
    total = 0
    for n in range(1, b["contains"]["max_len"] + 1):
        total += 4 ** n * sum(4 ** l for l in range(0, n + 3))
    for n in b["extra_contains"]["lens"]:
        total += 2 ** n * sum(2 ** l for l in range(0, n + 3))
    for n in range(1, CASE_MAX_LEN[tier] + 1):
        total += 3 ** n * sum(3 ** l for l in range(0, n + 3))
    for n in b["slice_len"]:
        total += 2 * (2 * n + 6) ** 2 * len(b["steps"])
    total += 3 * 3 * len(OPERANDS) + 2 * len(TOPOLOGIES) * len(CTOR_FORMS) + len(SOURCES) * len(MUTATIONS) * 2
    nseq = sum(4 ** n for n in range(2, (3 if tier == "quick" else 4) + 1))
    total += nseq * (nseq - 1)
    return total


def run_unit(unit, st, tier):
    kind, arg = unit
    if kind == "contains":
        unit_contains(st, *arg)
    elif kind == "history":
        unit_history(st, arg[0], arg[1], tier)
    elif kind == "slice":
        unit_slice(st, arg, bounds(tier)["steps"])
    elif kind == "add":
        unit_add(st)
    elif kind == "ctor":
        unit_ctor(st)
    elif kind == "copy":
        unit_copy(st)


# ---------------------------------------------------------------------------------------------

def circ_substrings(s):
    n = len(s)
    d = s + s[: max(0, n - 1)]
    out = {""}
    for i in range(n):
        for l in range(1, n + 1):
            out.add(d[i:i + l])
    return out


def lin_substrings(s):
    return {s[i:j] for i in range(len(s) + 1) for j in range(i, len(s) + 1)}


def unit_contains(st, alpha, n, c, chunks):
    seqs = ["".join(t) for t in itertools.product(alpha, repeat=n)][c::chunks]
    queries = [""]
    for l in range(1, n + 3):
        queries.extend("".join(t) for t in itertools.product(alpha, repeat=l))
    for s in seqs:
        rec = CircularRecord(Seq(s), id="c")
        subs = circ_substrings(s)
        lin = lin_substrings(s)
        letters = set(s)
        n_in = n_out = nt = 0
        for q in queries:
            exp = q in subs
            try:
                got = q in rec
            except Exception as e:
                st.violation("contains", "raises-" + type(e).__name__, dict(seq=s, query=q), exp, str(e))
                continue
            if got is not exp:
                if exp:
                    cause = "misses-origin-spanning-query" if q not in lin else "misses-query"
                else:
                    cause = "accepts-query-longer-than-record" if len(q) > n else "accepts-absent-query"
                st.violation("contains", cause, dict(seq=s, query=q), exp, got)
            if exp:
                n_in += 1
                if q and q not in lin:
                    nt += 1
                    st.goals["contained-only-across-origin"] += 1
                    if len(q) == n:
                        st.goals["query-equal-length-rotation"] += 1
                if not q:
                    st.goals["empty-query"] += 1
            else:
                n_out += 1
                if set(q) <= letters:
                    nt += 1
                if len(q) > n and q in (s + s):
                    st.goals["query-longer-than-record-rejected"] += 1
        k = n_in + n_out
        st.evaluations += k
        st.traces += k
        st.states += k
        st.transitions += 2 * k
        st.nontrivial += nt
        st.outcomes["contained"] += n_in
        st.outcomes["not-contained"] += n_out
    if seqs:
        st.sample(dict(sub="contains", seq=seqs[-1], query=(seqs[-1][-1] + seqs[-1][0])))


def unit_history(st, c, chunks, tier):
    """membership follows the record's CURRENT sequence: query, replace the sequence (same or other length), query again --
    every ordered pair of sequences over ACGT of length 2..3 (4 in thorough), every query up to length n+1"""
    maxlen = 3 if tier == "quick" else 4
    seqs = [""] and ["".join(t) for n in range(2, maxlen + 1) for t in itertools.product("ACGT", repeat=n)]
    queries = [""] + ["".join(t) for l in range(1, maxlen + 2) for t in itertools.product("ACGT", repeat=l)]
    subs = {s: circ_substrings(s) for s in seqs}
    pairs = [(a, b) for a in seqs for b in seqs if a != b][c::chunks]
    for a, b in pairs:
        rec = CircularRecord(Seq(a), id="h")
        ("A" in rec), (a in rec), ((a + a) in rec)            # earlier, legitimate queries
        rec.seq = Seq(b)                                      # the record now holds another sequence
        bad = None
        for q in queries:
            if (q in rec) is not (q in subs[b]):
                bad = q
                break
        st.scenario("history", None, calls=len(queries) + 4)
        st.nontrivial += 1
        st.goals["membership-after-sequence-replaced"] += 1
        if bad is not None:
            st.violation("history", "membership-answers-for-an-earlier-sequence", dict(sub="history", first=a, then=b, query=bad),
                         bad in subs[b], bad in rec)
    st.sample(dict(sub="history", first="ACG", then="TTA", query="TA"))


def slice_record(n, variant):
    s = "ACGTTGCAAC"[:n] if n <= 10 else "A" * n
    ann = {"topology": "circular", "organism": "o"} if variant else {}
    feats = [SeqFeature(FeatureLocation(0, n, strand=1), type="misc_feature", id="w", qualifiers={"label": ["w"]})]
    if n >= 2:
        feats.append(SeqFeature(FeatureLocation(0, 1, strand=-1), type="CDS", id="x", qualifiers={"label": ["x"]}))
    return s, CircularRecord(Seq(s), id="sid", name="sname", description="sdesc", features=feats, annotations=ann,
                             letter_annotations={"idx": list(range(n))})


def check_slice(st, n, variant, a, b, c):
    s, rec = slice_record(n, variant)
    scn = dict(n=n, annotated=variant, start=a, stop=b, step=c)
    try:
        out = rec[a:b:c]
    except Exception as e:
        st.violation("slice", "raises-" + type(e).__name__, scn, s[a:b:c], str(e))
        return
    if type(out) is not SeqRecord:
        st.violation("slice", "slice-is-not-a-plain-linear-record", scn, "SeqRecord", type(out).__name__)
    elif str(out.seq) != s[a:b:c]:
        st.violation("slice", "slice-text", scn, s[a:b:c], str(out.seq))
    elif str(out.annotations.get("topology", "linear")).lower() == "circular":
        st.violation("slice", "slice-claims-circular-topology", scn, "not circular", out.annotations.get("topology"))
    elif str(rec.annotations.get("topology", "circular")).lower() != "circular" or str(rec.seq) != s:
        st.violation("slice", "slicing-changed-the-record", scn, "unchanged", dict(rec.annotations))


def unit_slice(st, n, steps):
    vals = [None] + list(range(-n - 2, n + 3))
    for variant in (0, 1):
        for a in vals:
            for b in vals:
                for c in steps:
                    check_slice(st, n, variant, a, b, c)
                    st.scenario("slice", None)
                    st.nontrivial += 1
                    st.goals["slice-cases"] += 1
    st.sample(dict(sub="slice", n=n, annotated=1, start=-1, stop=None, step=None))


OPERANDS = ["str", "empty-str", "Seq", "SeqRecord", "CircularRecord", "self", "MutableSeq", "int"]


def operand(name, rec):
    from Bio.Seq import MutableSeq
    return {"str": "ACG", "empty-str": "", "Seq": Seq("ACG"), "SeqRecord": SeqRecord(Seq("ACG"), id="o"),
            "CircularRecord": CircularRecord(Seq("ACG"), id="o2"), "self": rec, "MutableSeq": MutableSeq("ACG"), "int": 3}[name]


def check_add(st, n, side, opname):
    rec = CircularRecord(Seq("ACGTAC"[:n]), id="a", annotations={"topology": "circular"})
    x = operand(opname, rec)
    scn = dict(n=n, side=side, operand=opname)
    try:
        if side == "right":
            out = rec + x
        elif side == "left":
            out = x + rec
        else:
            r2 = rec
            r2 += x
            out = r2
    except TypeError:
        return "TypeError"
    except Exception as e:
        st.violation("add", "wrong-exception-" + side, scn, "TypeError", "{}: {}".format(type(e).__name__, e))
        return "other"
    st.violation("add", "concatenation-accepted-" + side, scn, "TypeError", "{}: {}".format(type(out).__name__, str(getattr(out, "seq", out))))
    return "accepted"


def unit_add(st):
    for n in (1, 3, 6):
        for side in ("right", "left", "inplace"):
            for opname in OPERANDS:
                o = check_add(st, n, side, opname)
                st.scenario("add-" + o, None)
                st.nontrivial += 1
                st.goals["add-cases"] += 1
    st.sample(dict(sub="add", n=3, side="left", operand="SeqRecord"))


TOPOLOGIES = [None, "circular", "Circular", "CIRCULAR", "linear", "Linear", "LINEAR"]
CTOR_FORMS = ["wrap-seqrecord", "wrap-circularrecord-annotations", "direct-annotations"]


def check_ctor(st, n, topo, form):
    s = "ACGTAC"[:n]
    ann = {} if topo is None else {"topology": topo}
    scn = dict(n=n, topology=topo, form=form)
    expect_ok = topo is None or topo.lower() == "circular"
    try:
        if form == "wrap-seqrecord":
            src = SeqRecord(Seq(s), id="s", annotations=dict(ann))
            out = CircularRecord(src)
        elif form == "wrap-circularrecord-annotations":
            src = SeqRecord(Seq(s), id="s", annotations=dict(ann), features=[SeqFeature(FeatureLocation(0, 1), type="x")])
            out = CircularRecord(src)
        else:
            out = CircularRecord(Seq(s), id="s", annotations=dict(ann))
    except ValueError:
        if expect_ok:
            st.violation("ctor", "circular-record-refused", scn, "CircularRecord", "ValueError")
        return "ValueError"
    except Exception as e:
        st.violation("ctor", "wrong-exception", scn, "ValueError" if not expect_ok else "CircularRecord", "{}: {}".format(type(e).__name__, e))
        return "other"
    if not expect_ok:
        st.violation("ctor", "linear-record-wrapped-as-circular", scn, "ValueError", type(out).__name__)
    elif str(out.seq) != s or not isinstance(out, CircularRecord):
        st.violation("ctor", "wrapped-record-differs", scn, s, str(out.seq))
    return "ok"


def unit_ctor(st):
    for n in (1, 4):
        for topo in TOPOLOGIES:
            for form in CTOR_FORMS:
                o = check_ctor(st, n, topo, form)
                st.scenario("ctor-" + o, None)
                st.nontrivial += 1
                st.goals["ctor-linear-rejected" if o == "ValueError" else "ctor-circular-accepted"] += 1
    st.sample(dict(sub="ctor", n=4, topology="LINEAR", form="wrap-seqrecord"))


MUTATIONS = ["features.append", "features.pop", "feature.qualifiers[k]=v", "feature.qualifiers[k].append", "feature.location=",
             "feature.type=", "annotations[k]=v", "annotations[list].append", "annotations.pop", "dbxrefs.append",
             "letter_annotations[k][0]=", "id=", "name=", "description="]
SOURCES = ["SeqRecord", "CircularRecord"]


def source_record(kind):
    feats = [SeqFeature(FeatureLocation(0, 2, strand=1), type="CDS", id="f0", qualifiers={"label": ["l0"], "note": ["a"]}),
             SeqFeature(FeatureLocation(1, 4, strand=-1), type="misc_feature", id="f1", qualifiers={"label": ["l1"]})]
    cls = SeqRecord if kind == "SeqRecord" else CircularRecord
    return cls(Seq("ACGTAC"), id="i", name="n", description="d", dbxrefs=["x:1"], features=feats,
               annotations={"topology": "circular", "keywords": ["k1"], "organism": "o"},
               letter_annotations={"q": [1, 2, 3, 4, 5, 6]})


def mutate(rec, m):
    if m == "features.append":
        rec.features.append(SeqFeature(FeatureLocation(2, 3), type="new"))
    elif m == "features.pop":
        rec.features.pop()
    elif m == "feature.qualifiers[k]=v":
        rec.features[0].qualifiers["label"] = ["changed"]
    elif m == "feature.qualifiers[k].append":
        rec.features[0].qualifiers["note"].append("more")
    elif m == "feature.location=":
        rec.features[0].location = FeatureLocation(3, 5, strand=1)
    elif m == "feature.type=":
        rec.features[1].type = "changed"
    elif m == "annotations[k]=v":
        rec.annotations["organism"] = "changed"
    elif m == "annotations[list].append":
        rec.annotations["keywords"].append("k2")
    elif m == "annotations.pop":
        rec.annotations.pop("organism")
    elif m == "dbxrefs.append":
        rec.dbxrefs.append("y:2")
    elif m == "letter_annotations[k][0]=":
        rec.letter_annotations["q"][0] = 99
    elif m == "id=":
        rec.id = "changed"
    elif m == "name=":
        rec.name = "changed"
    elif m == "description=":
        rec.description = "changed"
    else:
        raise ValueError(m)


def check_copy(st, kind, m, direction):
    src = source_record(kind)
    before = snapshot.record_snapshot(src, absent_refs_is_empty=False)
    wrapped = CircularRecord(src)
    wbefore = snapshot.record_snapshot(wrapped, absent_refs_is_empty=False)
    scn = dict(source=kind, mutation=m, edited=direction)
    if direction == "copy":
        mutate(wrapped, m)
        after = snapshot.record_snapshot(src, absent_refs_is_empty=False)
        d = snapshot.diff(before, after)
        if d:
            st.violation("copy", "edit-of-copy-reaches-original", scn, "original unchanged", d)
    else:
        mutate(src, m)
        after = snapshot.record_snapshot(wrapped, absent_refs_is_empty=False)
        d = snapshot.diff(wbefore, after)
        if d:
            st.violation("copy", "edit-of-original-reaches-copy", scn, "copy unchanged", d)
    b2 = dict(before, cls="CircularRecord")
    d0 = snapshot.diff(b2, wbefore)
    if d0:
        st.violation("copy", "wrapped-copy-differs-from-original", scn, "equal content", d0)


def unit_copy(st):
    for kind in SOURCES:
        for m in MUTATIONS:
            for direction in ("copy", "original"):
                check_copy(st, kind, m, direction)
                st.scenario("copy", None)
                st.nontrivial += 1
                st.goals["copy-mutations"] += 1
    st.sample(dict(sub="copy", source="SeqRecord", mutation="feature.qualifiers[k].append", edited="copy"))


def replay(scn, sub, st):
    if sub == "contains":
        s, q = scn["seq"], scn["query"]
        exp = q in circ_substrings(s)
        got = q in CircularRecord(Seq(s), id="c")
        if got is not exp:
            st.violation(sub, "membership", scn, exp, got)
    elif sub == "history":
        rec = CircularRecord(Seq(scn["first"]), id="h")
        ("A" in rec), (scn["first"] in rec)
        rec.seq = Seq(scn["then"])
        q = scn["query"]
        if (q in rec) is not (q in circ_substrings(scn["then"])):
            st.violation(sub, "membership-answers-for-an-earlier-sequence", scn, q in circ_substrings(scn["then"]), q in rec)
    elif sub == "slice":
        check_slice(st, scn["n"], scn["annotated"], scn["start"], scn["stop"], scn["step"])
    elif sub == "add":
        check_add(st, scn["n"], scn["side"], scn["operand"])
    elif sub == "ctor":
        check_ctor(st, scn["n"], scn["topology"], scn["form"])
    elif sub == "copy":
        check_copy(st, scn["source"], scn["mutation"], scn["edited"])
