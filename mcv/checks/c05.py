"""C05 -- A part type accepts exactly the records with its signature overhangs.  (E1)

typing: every signature-derived part class of the kits + harness-defined part classes over every enzyme
geometry (concrete, one-degenerate-letter and all-N signatures) x generic records of the same enzyme whose
two overhangs range over a word menu (kit signature words, one-letter neighbours of the class's own
signature, IUPAC expansions) x 2 rotations.
characterize: every abstract root of the kits + harness-defined roots with 0..3 candidates x the same records.
"""
import itertools

from .. import asm, gen, refmodel as rm
from ..engine import HarnessError
from Bio.Seq import Seq
from moclo.record import CircularRecord
from moclo.core import parts as _parts

ID = "C05"
TITLE = "a part type accepts exactly its signature"
RULE = ("one scenario per (part class, upstream word, downstream word, rotation) resp. (root, record); non-trivial when the generic "
        "class accepts the record (so the verdict is decided by the signature alone); distinct by construction")
ASSUMPTIONS = [
    "records carry exactly the two sites of the formal definition (unique generic match decided by string search)",
    "YTKPart234r overrides its structure and is exempt from the signature equivalence (it is still a characterize candidate)",
    "candidates of characterize are the direct subclasses and the class itself when concrete (DESIGN 5.11)",
]
IUPAC_DEGENERATE = "RYSWKMBDHVN"


def bounds(tier):
    return dict(kit_part_classes="all signature-derived part classes of the five kits",
                harness_signatures="per enzyme geometry: concrete, one degenerate letter at each position (quick: R,N; thorough: all 11 codes), all-N; module and vector kind",
                words="kit signature words + one-letter neighbours of the class's own two signature words + expansions of degenerate letters",
                rotations=[0, "origin inside the upstream overhang"] if tier == "quick" else "0, origin inside each overhang, origin inside the target",
                characterize_roots="YTKPart, CIDARPart, EcoFlexPart, MoCloPart + harness roots with 0,1,3 candidates and a concrete root")


def goals(tier):
    return ["accepted-by-signature", "rejected-by-upstream-letter", "rejected-by-downstream-letter", "degenerate-signature-accepts",
            "degenerate-signature-rejects", "vector-part", "characterize-found", "characterize-runtimeerror", "characterize-concrete-root",
            "characterize-several-candidates-accept", "other-kind-record", "signature-free-class-asked-first", "candidate-type-declared-after-first-use", "every-presentation-of-a-plasmid", "linear-record-accepted", "linear-record-rejected", "characterize-every-presentation", "linear-record-flush-with-the-structure", "boundary-length-record", "record-object-reused", "enzyme-cutting-inside-its-site"]


# ---------------------------------------------------------------------------------------------

def sig_derived_parts():
    out = []
    for c in gen.kit_classes():
        if issubclass(c, _parts.AbstractPart):
            base = _parts.AbstractPart.structure.__func__(c)
            if c.structure() == base:
                out.append(c)
    return out


def neighbours(w):
    out = []
    for i in range(len(w)):
        for ch in "ACGT":
            if ch != w[i]:
                out.append(w[:i] + ch + w[i + 1:])
    return out


def expansions(code):
    return ["".join(t) for t in itertools.product(*[rm.IUPAC[c] for c in code])]


def kit_words(cls):
    words = set()
    for c in sig_derived_parts():
        if c.__module__ == cls.__module__ or "plant" in c.__module__ or "plant" in cls.__module__:
            for s in c.signature:
                if set(s) <= set("ACGT"):
                    words.add(s)
    return sorted(words)


def record_for(enz, kind, up, down, variant=0):
    """generic record of `kind` with overhang_start=up, overhang_end=down; None if it cannot be built with exactly 2 sites"""
    g = gen.geometry_of(gen.enzyme(enz))
    if variant in ("min", "min+1"):
        # boundary lengths of the formal definition: module body of 2 (3) nt; vector backbone of 2 (3) nt and placeholder of 0 (1) nt
        d = 0 if variant == "min" else 1
        for attempt in range(10):
            sh = attempt * 7
            if kind == "module":
                s = gen.mk_module(g, up, gen.word(0, 5 + sh, 2 + d, [g.site]), down, gen.word(1, 31 + sh, 4, [g.site]),
                                  x=gen.word(0, 3 + sh, g.off, [g.site]), y=gen.word(0, 17 + sh, g.off, [g.site]))
            else:
                s = gen.mk_vector(g, up, down, gen.word(0, 61 + sh, 2 + d, [g.site]), gen.word(1, 47 + sh, d, [g.site]),
                                  x=gen.word(0, 29 + sh, g.off, [g.site]), y=gen.word(0, 41 + sh, g.off, [g.site]))
            if rm.count_sites(s, g) == 2:
                return s
        return None
    for attempt in range(10):
        sh = attempt * 7 + variant * 3
        if kind == "module":
            s = gen.mk_module(g, up, gen.word(variant, 5 + sh, 5, [g.site]), down, gen.word(variant + 1, 31 + sh, 4, [g.site]),
                              x=gen.word(0, 3 + sh, g.off, [g.site]), y=gen.word(0, 17 + sh, g.off, [g.site]))
        else:
            s = gen.mk_vector(g, up, down, gen.word(variant, 61 + sh, 6, [g.site]), gen.word(variant + 1, 47 + sh, 4, [g.site]),
                              x=gen.word(0, 29 + sh, g.off, [g.site]), y=gen.word(0, 41 + sh, g.off, [g.site]))
        if rm.count_sites(s, g) == 2:
            return s
    return None


def kind_of(cls):
    return "vector" if gen.is_vector_class(cls) else "module"


def generic_for(cls):
    M, V = gen.generic_classes(cls.cutter.__name__)
    return V if gen.is_vector_class(cls) else M


def rotations_for(s, enz, kind, tier):
    g = gen.geometry_of(gen.enzyme(enz))
    n = len(s)
    L = len(g.site)
    if kind == "module":
        up0 = L + g.off          # upstream overhang starts here
    else:
        up0 = 0
    r1 = (-(up0 + max(1, g.ov // 2))) % n
    rots = [0, r1]
    if tier == "thorough":
        rots += [(-(up0 + g.ov + 2)) % n, n // 2]
    return sorted(set(rots))


def typed(cls, s, rec=None):
    e = cls(CircularRecord(Seq(s), id="c5") if rec is None else rec)
    v = e.is_valid()
    if not isinstance(v, bool):
        return ("non-bool", repr(v))
    if not v:
        return (False,)
    return (True, str(e.overhang_start()), str(e.overhang_end()))


def check_presentations(st, cls, sr, scn, pobs, linear_only=False):
    """the verdict (and the overhangs) of a plasmid cannot depend on the container it is handed over in"""
    for pname, rec in ([] if linear_only else gen.presentations(sr, "c5")[1:]):
        try:
            alt = typed(cls, sr, rec)
        except Exception as e:
            alt = ("raises", type(e).__name__, str(e)[:120])
        st.scenario("presentation", None, nodes=0)
        if pobs[0] is True:
            st.nontrivial += 1
        st.goal("every-presentation-of-a-plasmid")
        if alt != pobs:
            st.violation("typing", "verdict-depends-on-how-the-plasmid-is-handed-over-" + pname, dict(scn, presentation=pname), pobs, alt)
    # the same text declared linear: the statement itself (signature-free class accepts + overhangs match the signature), with the
    # signature-free class answering on the very same linear record; and that answer against the reference matcher in linear mode
    G = generic_for(cls)
    upsig, downsig = cls.signature
    lin = rm.Matcher(G.structure()).search(sr, circular=False)
    for pname, rec in gen.linear_presentations(sr, "c5"):
        try:
            galt = typed(G, sr, rec)
        except Exception as e:
            galt = ("raises", type(e).__name__, str(e)[:120])
        if (galt[0] is True) != (lin is not None and pobs is not None and typed(G, sr)[0] is True):
            st.violation("typing", "signature-free-class-reads-a-linear-record-across-its-ends-" + pname if galt[0] is True else "signature-free-class-verdict-on-linear-record-" + pname,
                         dict(scn, presentation=pname), lin is not None, galt)
            continue
        exp = (True, galt[1], galt[2]) if (galt[0] is True and rm.iupac_match(upsig, galt[1]) and rm.iupac_match(downsig, galt[2])) else (False,)
        try:
            alt = typed(cls, sr, rec)
        except Exception as e:
            alt = ("raises", type(e).__name__, str(e)[:120])
        st.scenario("linear-presentation", None, nodes=0)
        st.nontrivial += 1
        st.goal("linear-record-accepted" if exp[0] is True else "linear-record-rejected")
        if alt != exp:
            st.violation("typing", "linear-record-read-across-its-ends-" + pname if alt[0] is True else "linear-record-verdict-" + pname,
                         dict(scn, presentation=pname), exp, alt)


_REUSED = {}


def check_typing(st, cls, upsig, downsig, enz, kind, up, down, tier, scn_base, record_kind=None, size=None):
    if size is None and record_kind is None:
        # the same question on records of the boundary lengths of the definition (no presentations there)
        for sz in ("min", "min+1"):
            check_typing(st, cls, upsig, downsig, enz, kind, up, down, tier, dict({k_: v_ for k_, v_ in scn_base.items() if k_ != "presentations"}, size=sz), size=sz)
            st.goal("boundary-length-record")
    s = record_for(enz, record_kind or kind, up, down, variant=size or 0)
    if s is None:
        st.filtered += 1
        return
    G = generic_for(cls)
    rots = rotations_for(s, enz, kind, tier)
    base_rots = set(rots)
    if scn_base.get("presentations"):
        # rotations at which a linear reading of the text begins or ends exactly with the structure, and one letter further out
        m0 = rm.Matcher(G.structure()).search(s, True)
        if m0 is not None:
            n0 = len(s)
            a0, b0 = m0["spans"][0]
            rots = sorted(set(rots) | {(n0 - a0 + d) % n0 for d in (-1, 0, 1)} | {(n0 - b0 + d) % n0 for d in (-1, 0, 1)})
            st.goal("linear-record-flush-with-the-structure")
    for r in rots:
        sr = rm.rot_right(s, r)
        scn = dict(scn_base, up=up, down=down, rotation=r, seq=sr)
        try:
            gobs = typed(G, sr)
            pobs = typed(cls, sr)
        except Exception as e:
            st.violation("typing", "raises-" + type(e).__name__, scn, "verdicts", str(e)[:200])
            continue
        if gobs[0] is True:
            exp = rm.iupac_match(upsig, gobs[1]) and rm.iupac_match(downsig, gobs[2])
            # harness sanity: the generic class reports the overhangs the record was built with
            if record_kind is None and (gobs[1].upper(), gobs[2].upper()) != (up, down):
                st.extra["generic-reports-other-overhangs-than-built (C04's business)"] += 1
        else:
            exp = False
            st.goal("generic-rejects")
        got = pobs[0] is True
        # the same question on a record OBJECT that earlier questions already used: its sequence is assigned in place and it is
        # wrapped again while the previous wrapper of the same class is still alive (only the present content counts)
        if record_kind is None:
            slot = _REUSED.setdefault(cls, {})
            if "rec" not in slot:
                slot["rec"] = CircularRecord(Seq(sr), id="c5")
            slot["rec"].seq = Seq(sr)
            try:
                ent = cls(slot["rec"])
                v_ = ent.is_valid()
                robs = (True, str(ent.overhang_start()), str(ent.overhang_end())) if v_ else (False,)
            except Exception as e:
                ent, robs = None, ("raises", type(e).__name__, str(e)[:100])
            slot["alive"] = ent
            st.goal("record-object-reused")
            if robs != pobs:
                st.violation("typing", "answer-for-a-reused-record-object-differs-from-a-fresh-one", dict(scn, reused=True), pobs, robs)
        if scn_base.get("presentations") and (r in base_rots or pobs[0] is True):
            check_presentations(st, cls, sr, scn, pobs, linear_only=r not in base_rots)
        st.scenario("accept" if exp else "reject", None, calls=2)
        if gobs[0] is True:
            st.nontrivial += 1
        if got != exp:
            if exp:
                cause = "rejects-record-with-its-signature"
            else:
                cause = "accepts-record-without-its-signature" + ("-upstream" if not rm.iupac_match(upsig, up) else "-downstream")
            st.violation("typing", cause, scn, exp, pobs)
        elif got and (pobs[1].upper(), pobs[2].upper()) != (gobs[1].upper(), gobs[2].upper()):
            st.violation("typing", "part-reports-other-overhangs-than-generic", scn, gobs, pobs)
        if exp:
            st.goal("accepted-by-signature")
            if set(upsig + downsig) - set("ACGT"):
                st.goal("degenerate-signature-accepts")
        elif gobs[0] is True:
            if not rm.iupac_match(upsig, up):
                st.goal("rejected-by-upstream-letter")
            else:
                st.goal("rejected-by-downstream-letter")
            if set(upsig + downsig) - set("ACGT"):
                st.goal("degenerate-signature-rejects")


_harness_parts = {}


def harness_part(enz, kind, sig):
    key = (enz, kind, sig)
    if key not in _harness_parts:
        M, V = gen.generic_classes(enz)
        base = M if kind == "module" else V
        _harness_parts[key] = type(str("HP_{}_{}_{}".format(enz, kind, len(_harness_parts))), (_parts.AbstractPart, base),
                                   {"cutter": gen.enzyme(enz), "signature": sig})
    return _harness_parts[key]


def harness_signatures(g, tier):
    ovs = gen.overhang_words(g.ov, 2, 1)
    if len(ovs) < 2:
        ovs = ["A" * g.ov, "C" * g.ov][:2]
    a, b = ovs[0], ovs[1]
    sigs = [(a, b), ("N" * g.ov, b), (a, "N" * g.ov), ("N" * g.ov, "N" * g.ov),
            (a, a), (a, rm.revcomp(a)), (rm.revcomp(b), b)]            # equal / reverse-complementary signature pairs
    pal = {2: "AT", 4: "GTAC", 6: "GTATAC"}.get(g.ov)
    if pal:
        sigs += [(pal, b), (a, pal)]                                    # palindromic signature word
    codes = "RN" if tier == "quick" else IUPAC_DEGENERATE
    for i in range(g.ov):
        for c in codes:
            sigs.append((a[:i] + c + a[i + 1:], b))
            if tier == "thorough":
                sigs.append((a, b[:i] + c + b[i + 1:]))
    if tier == "quick":
        # every ambiguity code at least once: in the first letter of the upstream word and in the last letter of the downstream one
        for c in IUPAC_DEGENERATE:
            sigs.append((c + a[1:], b))
            sigs.append((a, b[:-1] + c))
    seen = []
    for s in sigs:
        if s not in seen:
            seen.append(s)
    return seen


def unit_inside(st, enz):
    """signature-typed module parts over enzymes that cut inside their own site (the site fixes the letters of the overhang)"""
    g = dict(gen.inside_cutters())[enz]
    G = gen.generic_classes(enz)[0]
    gen.prime([G])
    for blen in (2, 6):
        s = g.site + gen.word(0, 7 + blen, blen, [g.site, g.rsite]) + g.rsite + gen.word(1, 31, 5, [g.site, g.rsite])
        if rm.count_sites(s, g) != 2:
            st.filtered += 1
            continue
        for r in sorted({0, 2, len(s) // 2, len(s) - 1}):
            sr = rm.rot_right(s, r)
            try:
                gobs = typed(G, sr)
            except Exception as e:
                st.violation("typing", "raises-" + type(e).__name__, dict(family="inside", enz=enz, seq=sr), "verdicts", str(e)[:160])
                continue
            if gobs[0] is not True:
                st.filtered += 1
                continue
            o5, o3 = gobs[1].upper(), gobs[2].upper()
            wrong = ("A" if o5[0] != "A" else "C") + o5[1:]
            for sig in ((o5, o3), ("N" * g.ov, o3), (o5, "N" * g.ov), (wrong, o3)):
                cls = harness_part(enz, "module", sig)
                gen.prime([cls])
                scn = dict(family="inside", enz=enz, signature=list(sig), seq=sr)
                try:
                    pobs = typed(cls, sr)
                except Exception as e:
                    st.violation("typing", "raises-" + type(e).__name__, scn, "verdicts", str(e)[:160])
                    continue
                exp = rm.iupac_match(sig[0], o5) and rm.iupac_match(sig[1], o3)
                st.scenario("accept" if exp else "reject", None, calls=2)
                st.nontrivial += 1
                st.goal("enzyme-cutting-inside-its-site")
                if (pobs[0] is True) != exp:
                    st.violation("typing", "rejects-record-with-its-signature" if exp else "accepts-record-without-its-signature-upstream", scn, exp, pobs)
    st.sample(dict(family="inside", enz=enz, signature=["NN", "NN"]))


def units(tier):
    us = [("inside", n) for n, _ in gen.inside_cutters()] + [("kit", c.__name__) for c in sig_derived_parts()]
    for name, g in gen.enzymes():
        us.append(("harness", name))
    for root in ("YTKPart", "CIDARPart", "EcoFlexPart", "MoCloPart", "harness-roots"):
        us.append(("characterize", root))
    return us


def words_for(cls_words, upsig, downsig, tier):
    W = set(cls_words)
    for sig in (upsig, downsig):
        if set(sig) <= set("ACGT"):
            W.add(sig)
            W.update(neighbours(sig))
        else:
            ex = expansions(sig)
            if len(ex) <= 16 or tier == "thorough":
                W.update(ex[:64])
            else:
                W.update(ex[:: max(1, len(ex) // 8)])
            conc = ex[0]
            W.update(neighbours(conc)[:6])
    pal = set(w for w in W if w == rm.revcomp(w))
    return sorted(W)


def run_unit(unit, st, tier):
    kind, arg = unit
    if kind == "inside":
        return unit_inside(st, arg)
    if kind == "kit":
        cls = gen.class_by_name(arg)
        upsig, downsig = cls.signature
        if not (set(upsig.upper()) | set(downsig.upper())) <= set(rm.IUPAC):
            # the statement speaks of signatures "under IUPAC rules": a signature that is not a word over the IUPAC alphabet cannot be read that way
            st.violation("typing", "signature-is-not-a-word-over-the-IUPAC-alphabet", dict(family="kit", cls=arg, signature=[upsig, downsig]), "IUPAC letters", [upsig, downsig])
            st.scenario("reject", None)
            return
        gen.prime([cls, generic_for(cls)])
        W = words_for(kit_words(cls), upsig, downsig, tier)
        k = kind_of(cls)
        if k == "vector":
            st.goal("vector-part")
        for up in W:
            for down in W:
                check_typing(st, cls, upsig, downsig, cls.cutter.__name__, k, up, down, tier, dict(family="kit", cls=arg, presentations=True))
        # the order in which the property statement reads: the signature-free class is asked first, then the part class,
        # starting from classes that have not compiled anything yet (no priming by the harness)
        parents = [c for c in cls.__mro__[1:] if c in gen.kit_classes()]
        G = generic_for(cls)
        for up in W:
            for down in W:
                s = record_for(cls.cutter.__name__, k, up, down)
                if s is None:
                    continue
                gen.fresh(cls)
                try:
                    for P in parents:
                        P(CircularRecord(Seq(s), id="c5p")).is_valid()
                    gobs = typed(G, s)
                    pobs = typed(cls, s)
                except Exception as e:
                    st.violation("order", "raises-" + type(e).__name__, dict(family="kit-order", cls=arg, up=up, down=down, seq=s), "verdicts", str(e)[:200])
                    continue
                exp = gobs[0] is True and rm.iupac_match(upsig, gobs[1]) and rm.iupac_match(downsig, gobs[2])
                st.scenario("order-accept" if exp else "order-reject", None, calls=2 + len(parents))
                st.nontrivial += 1
                st.goal("signature-free-class-asked-first")
                if (pobs[0] is True) != exp:
                    st.violation("order", "verdict-differs-when-the-signature-free-class-is-asked-first", dict(family="kit-order", cls=arg, up=up, down=down, seq=s,
                                 parents=[p.__name__ for p in parents]), exp, pobs)
        gen.prime([cls, G])
        other = "vector" if k == "module" else "module"
        st.goal("other-kind-record")
        for up in W[:4]:
            for down in W[-4:]:
                check_typing(st, cls, upsig, downsig, cls.cutter.__name__, k, up, down, tier,
                             dict(family="kit", cls=arg, record_kind=other), record_kind=other)
        st.sample(dict(family="kit", cls=arg, up=W[0], down=W[-1], rotation=0))
    elif kind == "harness":
        enz = arg
        g = gen.geometry_of(gen.enzyme(enz))
        for k in ("module", "vector"):
            for sig in harness_signatures(g, tier):
                cls = harness_part(enz, k, sig)
                gen.prime([cls, generic_for(cls)])
                W = words_for([], sig[0], sig[1], tier)
                if len(W) > 14:
                    W = W[:: max(1, len(W) // 14)] + [w for w in expansions(sig[0])[:1] + expansions(sig[1])[:1] if w not in W[:: max(1, len(W) // 14)]]
                if k == "vector":
                    st.goal("vector-part")
                for up in W:
                    for down in W:
                        check_typing(st, cls, sig[0], sig[1], enz, k, up, down, tier,
                                     dict(family="harness", enz=enz, kind=k, signature=list(sig)))
        st.sample(dict(family="harness", enz=enz, kind="module", signature=list(harness_signatures(g, tier)[1])))
    else:
        unit_characterize(st, arg, tier)


# ---------------------------------------------------------------------------------------------

_roots = {}


def harness_roots():
    """Roots defined exactly as a user would: abstract root with 0, 1, 3 candidates; a concrete root with one subclass."""
    if not _roots:
        from Bio.Restriction import BsaI
        M, V = gen.generic_classes("BsaI")

        def root(name, concrete_sig=None):
            d = {"cutter": BsaI, "signature": concrete_sig if concrete_sig else NotImplemented}
            bases = (_parts.AbstractPart, M) if concrete_sig else (_parts.AbstractPart,)
            return type(str(name), bases, d)

        def child(name, parent, sig, concrete_parent=False):
            bases = (parent,) if concrete_parent else (parent, M)
            return type(str(name), bases, {"signature": sig})
        r0 = root("HRoot0")
        r1 = root("HRoot1")
        c11 = child("HRoot1A", r1, ("ACGT", "TTGA"))
        r3 = root("HRoot3")
        c31 = child("HRoot3A", r3, ("ACGT", "TTGA"))
        c32 = child("HRoot3N", r3, ("NNNN", "TTGA"))
        c33 = child("HRoot3B", r3, ("GGCA", "CCAT"))
        rc = root("HRootC", ("ACGT", "NNNN"))
        cc1 = child("HRootCA", rc, ("GGCA", "CCAT"), concrete_parent=True)
        _roots.update({"HRoot0": (r0, []), "HRoot1": (r1, [c11]), "HRoot3": (r3, [c31, c32, c33]), "HRootC": (rc, [cc1])})
    return _roots


def accepts_ref(cand, s):
    """reference acceptance of a candidate class on a well-formed record (a candidate without a structure accepts nothing)"""
    try:
        m = rm.Matcher(cand.structure()).search(s, True)
    except (NotImplementedError, TypeError, RuntimeError, ValueError, KeyError):
        return False        # no structure, or a structure outside the documented pattern language: nothing the reference can accept
    if m is None:
        return False
    g = gen.geometry_of(cand.cutter)
    text = m["groups"][0].upper()
    return text.count(g.site) + text.count(g.rsite) <= 2


def check_characterize(st, root, rootname, s, scn):
    cands = list(root.__subclasses__())
    from moclo._utils import isabstract as _  # noqa: F401  (not used: the model decides concreteness itself)
    concrete = root.signature is not NotImplemented and root.cutter is not NotImplemented
    if concrete:
        cands.append(root)
    accepting = [c for c in cands if accepts_ref(c, s)]
    rec = CircularRecord(Seq(s), id="chr")
    try:
        ent = root.characterize(rec)
        got = ("entity", type(ent))
    except RuntimeError as e:
        got = ("RuntimeError", str(e)[:80])
    except Exception as e:
        got = ("raises", type(e).__name__ + ": " + str(e)[:80])
    st.scenario("found" if accepting else "none", None)
    st.nontrivial += 1
    if accepting:
        st.goal("characterize-found")
        if len(accepting) > 1:
            st.goal("characterize-several-candidates-accept")
        if concrete and root in accepting:
            st.goal("characterize-concrete-root")
        if got[0] != "entity":
            st.violation("characterize", "fails-although-a-candidate-accepts", scn, [c.__name__ for c in accepting], list(map(str, got)))
        else:
            t = got[1]
            if t not in cands:
                st.violation("characterize", "returns-a-non-candidate-type", scn, [c.__name__ for c in accepting], t.__name__)
            elif t not in accepting or not ent.is_valid():
                st.violation("characterize", "returns-a-type-that-does-not-accept-the-record", scn, [c.__name__ for c in accepting], t.__name__)
            elif ent.record is not rec and str(ent.record.seq) != s:
                st.violation("characterize", "returns-an-entity-of-another-record", scn, s, str(ent.record.seq))
    else:
        st.goal("characterize-runtimeerror")
        if got[0] != "RuntimeError":
            st.violation("characterize", "no-runtimeerror-although-no-candidate-accepts", scn, "RuntimeError", [got[0], getattr(got[1], "__name__", str(got[1]))])
    if scn.get("family") != "characterize":
        return
    # the same plasmid in every other legal presentation, and the same text declared linear (read at rotation 0 and with the
    # origin moved into the structure, where a linear molecule cannot carry it)
    n = len(s)
    for text in (s, rm.rot_right(s, n - (gen.geometry_of(root.cutter).ov + len(gen.geometry_of(root.cutter).site)) // 2 - 1)):
        acc_c = [c for c in cands if accepts_ref(c, text)]
        acc_l = [c for c in acc_c if rm.Matcher(c.structure()).search(text, False) is not None]
        todo = [(p, r, acc_c) for p, r in gen.presentations(text, "chr")[1:]] + [(p, r, acc_l) for p, r in gen.linear_presentations(text, "chr")]
        for pname, prec, acc in todo:
            try:
                ent = root.characterize(prec)
                got = ("entity", type(ent))
            except RuntimeError as e:
                got = ("RuntimeError", str(e)[:80])
            except Exception as e:
                got = ("raises", type(e).__name__ + ": " + str(e)[:80])
            st.scenario("presentation-found" if acc else "presentation-none", None, nodes=0)
            st.nontrivial += 1
            st.goal("characterize-every-presentation")
            ok = (got[0] == "entity" and got[1] in acc) if acc else got[0] == "RuntimeError"
            if not ok:
                st.violation("characterize", "answer-depends-on-how-the-record-is-handed-over-" + pname, dict(scn, presentation=pname, text=text),
                             [c.__name__ for c in acc] or "RuntimeError", [got[0], getattr(got[1], "__name__", str(got[1]))])


def unit_late_subclass(st, replaying=False):
    """A multi-step history: a root is used for characterisation, THEN a further candidate type is declared, then records of
    the new type are characterised through the same root (and through a concrete parent that gains a child)."""
    from Bio.Restriction import BsaI
    M, V = gen.generic_classes("BsaI")
    root = type(str("HLateRoot"), (_parts.AbstractPart,), {"cutter": BsaI, "signature": NotImplemented})
    first = type(str("HLateA"), (root, M), {"signature": ("ACGT", "TTGA")})
    conc = type(str("HLateConcrete"), (_parts.AbstractPart, M), {"cutter": BsaI, "signature": ("GGCA", "NNNN")})
    gen.prime([first, conc])
    rec_a = record_for("BsaI", "module", "ACGT", "TTGA")
    rec_b = record_for("BsaI", "module", "GGCA", "CCAT")
    rec_c = record_for("BsaI", "module", "CCAT", "ACGA")
    # step 1: the roots are used
    check_characterize(st, root, "HLateRoot", rec_a, dict(family="late-subclass", step=1, root="HLateRoot", seq=rec_a))
    check_characterize(st, root, "HLateRoot", rec_b, dict(family="late-subclass", step=1, root="HLateRoot", seq=rec_b))
    check_characterize(st, conc, "HLateConcrete", rec_b, dict(family="late-subclass", step=1, root="HLateConcrete", seq=rec_b))
    # step 2: new candidate types are declared
    late = type(str("HLateB"), (root, M), {"signature": ("GGCA", "CCAT")})
    late_n = type(str("HLateN"), (root, M), {"signature": ("CCAT", "NNNN")})
    late_child = type(str("HLateConcreteChild"), (conc,), {"signature": ("GGCA", "CCAT")})
    gen.prime([late, late_n, late_child])
    # step 3: records of the new types through the same roots
    for rec in (rec_a, rec_b, rec_c):
        check_characterize(st, root, "HLateRoot", rec, dict(family="late-subclass", step=3, root="HLateRoot", seq=rec))
        st.scenario("late", None)
        st.nontrivial += 1
    check_characterize(st, conc, "HLateConcrete", rec_b, dict(family="late-subclass", step=3, root="HLateConcrete", seq=rec_b))
    st.goal("candidate-type-declared-after-first-use")


def unit_characterize(st, rootname, tier):
    import importlib
    if rootname == "harness-roots":
        roots = [(n, r, "BsaI") for n, (r, _) in sorted(harness_roots().items())]
        words = ["ACGT", "TTGA", "GGCA", "CCAT", "ACGA", "TTGC", "AAAA"]
    else:
        modname = {"YTKPart": "ytk", "CIDARPart": "cidar", "EcoFlexPart": "ecoflex", "MoCloPart": "moclo"}[rootname]
        mod = importlib.import_module("moclo.kits." + modname)
        root = getattr(mod, rootname)
        roots = [(rootname, root, root.cutter.__name__)]
        words = set()
        for c in root.__subclasses__():
            if c.signature is NotImplemented:
                continue
            for sgn in c.signature:
                if set(sgn) <= set("ACGT"):
                    words.add(sgn)
        words = sorted(words) + ["AAAC"]
    for name, root, enz in roots:
        gen.prime([c for c in root.__subclasses__()] + ([root] if root.signature is not NotImplemented else []))
        for k in ("module", "vector"):
            for up in words:
                for down in words:
                    s = record_for(enz, k, up, down)
                    if s is None:
                        st.filtered += 1
                        continue
                    check_characterize(st, root, name, s, dict(family="characterize", root=name, kind=k, up=up, down=down, seq=s))
        # the YTK 234r-style record (sites inside the target) for the YTK root
        if name == "YTKPart":
            from . import c16
            for cls in root.__subclasses__():
                if cls.__name__ == "YTKPart234r":
                    s = c16.kit_instances(cls)[0][0]
                    check_characterize(st, root, name, s, dict(family="characterize", root=name, kind="234r", seq=s))
    if rootname == "harness-roots":
        unit_late_subclass(st)
    st.sample(dict(family="characterize", root=roots[0][0], kind="module", up=words[0], down=words[1]))


def replay(scn, sub, st):
    fam = scn["family"]
    if fam == "inside":
        unit_inside(st, scn["enz"])
        return
    if fam == "late-subclass":
        unit_late_subclass(st, replaying=True)
        return
    if fam == "characterize":
        name = scn["root"]
        if name.startswith("HRoot"):
            root = harness_roots()[name][0]
        else:
            import importlib
            modname = {"YTKPart": "ytk", "CIDARPart": "cidar", "EcoFlexPart": "ecoflex", "MoCloPart": "moclo"}[name]
            root = getattr(importlib.import_module("moclo.kits." + modname), name)
        gen.prime([c for c in root.__subclasses__()])
        check_characterize(st, root, name, scn["seq"], scn)
        return
    if fam == "kit-order":
        cls = gen.class_by_name(scn["cls"])
        upsig, downsig = cls.signature
        G = generic_for(cls)
        gen.prime([G])
        gen.fresh(cls)
        s = scn["seq"]
        for P in [c for c in cls.__mro__[1:] if c in gen.kit_classes()]:
            P(CircularRecord(Seq(s), id="c5p")).is_valid()
        gobs, pobs = typed(G, s), typed(cls, s)
        exp = gobs[0] is True and rm.iupac_match(upsig, gobs[1]) and rm.iupac_match(downsig, gobs[2])
        if (pobs[0] is True) != exp:
            st.violation(sub, "verdict-differs-when-the-signature-free-class-is-asked-first", scn, exp, pobs)
        return
    if fam == "kit":
        cls = gen.class_by_name(scn["cls"])
        enz, k = cls.cutter.__name__, kind_of(cls)
        upsig, downsig = cls.signature
    else:
        enz, k = scn["enz"], scn["kind"]
        cls = harness_part(enz, k, tuple(scn["signature"]))
        upsig, downsig = scn["signature"]
    gen.prime([cls, generic_for(cls)])
    G = generic_for(cls)
    sr = scn["seq"]
    gobs, pobs = typed(G, sr), typed(cls, sr)
    exp = gobs[0] is True and rm.iupac_match(upsig, gobs[1]) and rm.iupac_match(downsig, gobs[2])
    if (pobs[0] is True) != exp:
        st.violation(sub, "verdict", scn, exp, pobs)
    elif exp and (pobs[1].upper(), pobs[2].upper()) != (gobs[1].upper(), gobs[2].upper()):
        st.violation(sub, "part-reports-other-overhangs-than-generic", scn, gobs, pobs)
    if scn.get("presentations"):
        check_presentations(st, cls, sr, scn, pobs)
