"""C02 -- A plasmid has no origin: typing and assembly are rotation-invariant.  (E1, rotation axis complete)

Families: (a) generic module / vector / signature-typed part classes over every enzyme geometry,
(b) every concrete kit class on instances of its structure, (c) every plasmid of the five embedded
registries under the classes that accept it.  For (a), (b): all n rotations, rotated both as
`record >> r` and as a fresh record of the rotated string.  For (c): quick = structure window +
stride under the assigned class; thorough = all n rotations under the assigned class and the
structure window under every accepting class.  (d) rotation of assembly participants is part of
C01's space (all rotations of every plasmid) and is not repeated here.
"""
from .. import asm, gen, refmodel as rm, regs
from ..engine import HarnessError
from Bio.Seq import Seq
from moclo.record import CircularRecord
from moclo.core import parts as _parts

ID = "C02"
TITLE = "typing is rotation-invariant"
RULE = ("one scenario per (class, record, rotation r, construction); non-trivial when r != 0 and the class accepts the "
        "record at rotation 0; each tuple enumerated once")
ASSUMPTIONS = [
    "precondition 'exactly one occurrence of the structure' decided by the reference matcher (one circular start position)",
    "placeholder_sequence is compared differentially (rotation r vs rotation 0); its absolute value is C04's business",
    "records with more than two cutter sites inside the match are compared differentially only (IllegalSite screen is Biopython's catalyse)",
]


def bounds(tier):
    return dict(generic="all enzyme geometries x {module, vector, signature-typed part} x default + boundary region lengths x all n rotations x {>>, fresh}",
                presentations="BsaI, BbsI, FokI, default lengths: every rotation also as plain SeqRecord (topology circular / Circular / CIRCULAR / absent), MutableSeq, "
                              "topology set after construction, wrapped from a SeqRecord, fully annotated; and in lower / alternating case",
                kit="all concrete kit classes x 2 fills x 2 star lengths x all n rotations x {>>, fresh}",
                registry=("assigned class: structure window + stride n/16 (fresh)" if tier == "quick"
                          else "assigned class: all n rotations (fresh) + window (>>); every accepting class: structure window"))


def goals(tier):
    g = []
    for fam in ("generic", "kit", "registry"):
        for z in ("group1", "group2", "group3", "match-flank", "outside-match"):
            g.append("{}:origin-in-{}".format(fam, z))
    return g + ["generic:part-class", "generic:vector", "kit:vector", "registry:vector", "rejected-stays-rejected", "generic:self-overlapping-site", "generic:every-presentation", "generic:assembly-of-a-vector-with-a-lone-site-in-its-backbone", "generic:three-prime-overhang-enzyme"]


# ---------------------------------------------------------------------------------------------

def observe(cls, rec):
    gen.fresh(cls)
    e = cls(rec)
    try:
        v = e.is_valid()
    except Exception as ex:
        return ("raises", type(ex).__name__, str(ex)[:100])
    if not v:
        return (False,)
    try:
        before = (str(rec.seq), len(rec.features), sorted(rec.annotations), rec.id)
        t1 = str(e.target_sequence().seq)            # asked first ...
        out = [True, str(e.overhang_start()), str(e.overhang_end()), str(e.target_sequence().seq)]   # ... and again after the overhangs
        if gen.is_vector_class(cls):
            out.append(str(e.placeholder_sequence().seq))
        if t1 != out[3] or (str(e.overhang_start()), str(e.overhang_end())) != (out[1], out[2]):
            return ("unstable", "the same accessor of one entity answered differently when asked again", t1[:40], out[3][:40])
        if (str(rec.seq), len(rec.features), sorted(rec.annotations), rec.id) != before:
            return ("mutated", "typing accessors modified the record they were given")
        return tuple(out)
    except Exception as ex:
        return ("raises", type(ex).__name__, str(ex)[:100])


def reference(cls, s):
    """(unique, ref observation without placeholder, spans) from the string at rotation 0"""
    mt = rm.Matcher(cls.structure())
    starts = mt.all_starts(s, True)
    if len(starts) != 1:
        return len(starts), None, None
    m = mt.search(s, True)
    n = len(s)
    g = gen.geometry_of(cls.cutter)
    text = m["groups"][0].upper()
    nsites = text.count(g.site) + (text.count(g.rsite) if g.rsite != g.site else 0)
    sp = m["spans"]
    if gen.is_vector_class(cls):
        ov_s, ov_e = m["groups"][3], m["groups"][1]
        if g.three:      # 3' cutters: the retained stretch runs from the end of the upstream overhang to the start of the placeholder
            tgt = rm.circ_slice(s, sp[3][1], n - (sp[3][1] - sp[2][0]))
        else:
            tgt = rm.circ_slice(s, sp[2][1], n - (sp[2][1] - sp[1][0]))
    else:
        ov_s, ov_e = m["groups"][1], m["groups"][3]
        tgt = rm.circ_slice(s, sp[2][0], sp[3][1] - sp[2][0]) if g.three else rm.circ_slice(s, sp[1][0], sp[2][1] - sp[1][0])
    ref = (True, ov_s, ov_e, tgt) if nsites <= 2 else None
    return 1, ref, sp


def zone(sp, n, r):
    """zone of the origin after rotating right by r, from the rotation-0 spans (positions on the doubled string)"""
    p = (-r) % n
    for q in (p, p + n):
        for gi, name in ((1, "group1"), (2, "group2"), (3, "group3")):
            a, b = sp[gi]
            if a < q < b:           # strictly inside
                return name
    for q in (p, p + n):
        if sp[0][0] < q < sp[0][1]:
            return "match-flank"
    return "outside-match"


def observe_typing(cls, rec):
    """what can be asked of a plasmid handed over as a plain SeqRecord: the verdict and the overhangs"""
    gen.fresh(cls)
    e = cls(rec)
    try:
        if not e.is_valid():
            return (False,)
        return (True, str(e.overhang_start()), str(e.overhang_end()))
    except Exception as ex:
        return ("raises", type(ex).__name__, str(ex)[:100])


def check_presentations(st, fam, cls, sr, obs0, scn):
    """the rotated plasmid in every other legal presentation (container class, sequence class, topology spelling, annotations)"""
    from Bio.SeqRecord import SeqRecord
    for pname, rec in gen.presentations(sr, "r0")[1:]:
        if isinstance(rec, CircularRecord):
            o, exp = observe(cls, rec), obs0
        else:
            o, exp = observe_typing(cls, rec), tuple(obs0[:3])
        st.scenario("presentation", None, nodes=0)
        st.goal(fam + ":every-presentation")
        if obs0[0] is True:
            st.nontrivial += 1
        if o != exp:
            st.violation(fam, "answers-depend-on-how-the-plasmid-is-handed-over-" + pname, dict(scn, presentation=pname), exp, o)
    # ... and in other spellings (lower case; alternating case): the same answers up to case, at this very rotation
    up = lambda t: tuple(x.upper() if isinstance(x, str) else x for x in t)
    for pname, text in (("lower-case", sr.lower()), ("alternating-case", "".join(c.lower() if i % 2 else c.upper() for i, c in enumerate(sr)))):
        o = observe(cls, gen.crec(text, "r0"))
        st.scenario("presentation", None, nodes=0)
        if obs0[0] is True:
            st.nontrivial += 1
        if up(o) != up(obs0):
            st.violation(fam, "answers-depend-on-the-spelling-of-the-rotated-plasmid-" + pname, dict(scn, presentation=pname), up(obs0), up(o))


def check_record(st, fam, cls, s, rots, constructions, scn_base):
    n = len(s)
    nstarts, ref, sp = reference(cls, s)
    rec0 = gen.crec(s, "r0")
    obs0 = observe(cls, rec0)
    # a typed wrapper of the unrotated record stays alive while the rotations are typed (parts are kept around in practice)
    alive = cls(rec0)
    try:
        alive.is_valid()
    except Exception:
        pass
    if nstarts > 1:
        st.filtered += 1
        return
    if nstarts == 0:
        # rejected records must stay rejected under rotation (still a unique-structure statement: zero matches)
        if obs0 != (False,):
            st.violation(fam, "accepts-record-without-structure", dict(scn_base, rotation=0), (False,), obs0)
        for r in rots:
            o = observe(cls, gen.crec(rm.rot_right(s, r), "rr"))
            st.scenario("rejected", None)
            if o != (False,):
                st.violation(fam, "verdict-changes-under-rotation", dict(scn_base, rotation=r, construction="fresh"), (False,), o)
        st.goal("rejected-stays-rejected")
        return
    if ref is not None and tuple(obs0[:4]) != ref:
        what = ("accessors-" + str(obs0[0])) if obs0[0] in ("unstable", "mutated", "raises") else "verdict" if obs0[0] is not True else ("overhang" if obs0[1:3] != ref[1:3] else "target")
        st.violation(fam, "differs-from-reference-at-rotation-0-" + what, dict(scn_base, rotation=0), ref, obs0)
    if obs0[0] is True and gen.is_vector_class(cls):
        st.goal(fam + ":vector")
    for r in rots:
        for c in constructions:
            if c == ">>":
                rec = rec0 >> r
            else:
                rec = CircularRecord(Seq(rm.rot_right(s, r)), id="r0")
            o = observe(cls, rec)
            st.scenario("accepted" if obs0[0] is True else "rejected", None)
            if r % n and obs0[0] is True:
                st.nontrivial += 1
            if c == "fresh" and scn_base.get("presentations"):
                check_presentations(st, fam, cls, rm.rot_right(s, r), obs0, dict(scn_base, rotation=r, construction=c))
            if o != obs0:
                if o[0] in ("unstable", "mutated", "raises") and obs0[0] is True:
                    cause = "accessors-{}-under-rotation".format(o[0])
                elif o[0] != obs0[0]:
                    cause = "verdict-changes-under-rotation"
                elif o[1:3] != obs0[1:3]:
                    cause = "overhang-changes-under-rotation"
                elif o[3] != obs0[3]:
                    cause = "target-changes-under-rotation"
                else:
                    cause = "placeholder-changes-under-rotation"
                st.violation(fam, cause, dict(scn_base, rotation=r, construction=c), obs0, o)
        if sp is not None:
            st.goal("{}:origin-in-{}".format(fam, zone(sp, n, r)))


# ---------------------------------------------------------------------------------------------

def unit_three_prime(st, enz):
    """signature-typed parts over enzymes that leave 3' overhangs: every rotation, both constructions"""
    from . import c04
    g = gen.geometry_of(gen.enzyme(enz))
    words = gen.overhang_words(g.ov, 3, 2)
    forbid = [g.site]
    o5, o3 = words[0], words[1]
    x, y = gen.word(0, 3, g.off, forbid), gen.word(0, 17, g.off, forbid)
    mod = gen.mk_module(g, o5, gen.word(0, 9, 4, forbid), o3, gen.word(1, 31, 5, forbid), x=x, y=y)
    vec = gen.mk_vector(g, o5, o3, gen.word(1, 61, 6, forbid), gen.word(0, 47, 3, forbid), x=x, y=y)
    for kind, s, sig in (("module", mod, (o5, o3)), ("module", mod, ("N" * g.ov, "N" * g.ov)), ("vector", vec, (o5, o3))):
        if rm.count_sites(s, g) != 2:
            st.filtered += 1
            continue
        cls = c04.part3(enz, kind, sig)
        check_record(st, "generic", cls, s, range(len(s)), (">>", "fresh"),
                     dict(family="three-prime", enz=enz, kind=kind, signature=list(sig), seq=s, cls=cls.__name__))
        st.goal("generic:three-prime-overhang-enzyme")
    st.sample(dict(family="three-prime", enz=enz, kind="module", rotation=1, construction=">>"))


def units(tier):
    us = [("three-prime", n) for n in (["BtsI", "BseRI", "MnlI"] if tier == "quick" else [n for n, _ in gen.three_prime_enzymes()])]
    for name, g in gen.enzymes():
        us.append(("generic", name))
    for name, g in gen.degenerate_enzymes():
        us.append(("degenerate", name))
    cls = gen.kit_classes()
    for i in range(0, len(cls), 3):
        us.append(("kit", [c.__name__ for c in cls[i:i + 3]]))
    rows = regs.table()
    step = 6 if tier == "quick" else 2
    for i in range(0, len(rows), step):
        us.append(("registry", (i, min(len(rows), i + step))))
    return us


_part_classes = {}


def part_class(enz, kind, sig):
    key = (enz, kind, sig)
    if key not in _part_classes:
        M, V = gen.generic_classes(enz)
        base = M if kind == "module" else V
        _part_classes[key] = type(str("GP_{}_{}_{}".format(enz, kind, len(_part_classes))), (_parts.AbstractPart, base),
                                  {"cutter": gen.enzyme(enz), "signature": sig})
    return _part_classes[key]


def unit_generic(st, enz):
    g = gen.geometry_of(gen.enzyme(enz))
    M, V = gen.generic_classes(enz)
    for lens in (None, {"body0": 2}, {"mbb0": 0}, {"vbb": 2}, {"vph": 0}):
        scn = asm.base_scenario(enz, 1, lens=lens)
        if scn is None:
            st.filtered += 1
            continue
        ok, _ = asm.well_formed(scn)
        if not ok:
            st.filtered += 1
            continue
        vec, mods = asm.pieces_to_plasmids(scn)
        ovs = scn["ovs"]
        jobs = [(M, mods[0], "module"), (V, vec, "vector")]
        if lens is None:
            # signature-typed parts: exact, degenerate and all-N signatures; a module typed as a vector must stay rejected
            jobs += [(part_class(enz, "module", (ovs[0], ovs[1])), mods[0], "part-module"),
                     (part_class(enz, "module", ("N" * g.ov, ovs[1])), mods[0], "part-module-N"),
                     (part_class(enz, "vector", (ovs[1], ovs[0])), vec, "part-vector"),
                     (part_class(enz, "module", (ovs[1], ovs[0])), mods[0], "part-module-wrong-signature"),
                     (V, mods[0], "module-as-vector")]
            st.goal("generic:part-class")
            # content: a partial copy of the site overlapping the real upstream site (possible when the site has a border,
            # e.g. CGTCTC -> CGTCT|CGTCTC); a signature-typed class still has exactly one structure occurrence
            L = len(g.site)
            border = max([k for k in range(1, L) if g.site[:k] == g.site[-k:]] or [0])
            if border:
                s2 = mods[0] + g.site[: L - border]
                jobs.append((part_class(enz, "module", (ovs[0], ovs[1])), s2, "part-module-overlapping-site-copy"))
                st.goal("generic:self-overlapping-site")
        if lens is None:
            # a signature-typed vector part whose BACKBONE holds one more (lone) site of its enzyme, forward or reverse: its
            # structure still occurs exactly once; typing and the product of an assembly must not depend on where the origin is
            for extra, elabel in ((g.site, "forward"), (g.rsite, "reverse")):
                vbb2 = scn["vbb"][:1] + extra + scn["vbb"][1:]
                vec2 = gen.mk_vector(g, ovs[1], ovs[0], vbb2, scn["vph"], x=scn["vfill"][0], y=scn["vfill"][1])
                pv = part_class(enz, "vector", (ovs[1], ovs[0]))
                nst, _, _ = reference(pv, vec2)
                if nst != 1:
                    st.filtered += 1
                    continue
                jobs.append((pv, vec2, "part-vector-lone-%s-site-in-backbone" % elabel))
                outs = {}
                for r in range(len(vec2)):
                    o = asm.run_assemble(pv(gen.crec(rm.rot_right(vec2, r), "v")), [M(gen.crec(mods[0], "m"))])
                    key = (o.kind, rm.canon_rot(o.seq.upper()) if o.kind == "product" else o.exc_name)
                    outs.setdefault(key, r)
                    st.scenario("assembly-rotated", None, nodes=0)
                    st.nontrivial += 1
                st.goal("generic:assembly-of-a-vector-with-a-lone-site-in-its-backbone")
                if len(outs) > 1:
                    st.violation("generic", "assembly-outcome-changes-under-rotation-of-the-vector",
                                 dict(family="generic-assembly", enz=enz, vector=vec2, module=mods[0], signature=[ovs[1], ovs[0]], rotations=sorted(outs.values())),
                                 "one outcome", [[k_[0], str(k_[1])[:60], r_] for k_, r_ in outs.items()])
        for cls, s, label in jobs:
            check_record(st, "generic", cls, s, range(len(s)), (">>", "fresh"),
                         dict(family="generic", enz=enz, cls_kind=label, lens=lens, seq=s, cls=cls.__name__, presentations=lens is None and enz in ("BsaI", "BbsI", "FokI"),
                              signature=list(getattr(cls, "signature", None) or []) or None))
    st.sample(dict(family="generic", enz=enz, cls_kind="module", rotation=1, construction=">>"))


def unit_kit(st, names):
    from . import c16
    for name in names:
        cls = gen.class_by_name(name)
        for text, label in c16.kit_instances(cls):
            check_record(st, "kit", cls, text, range(len(text)), (">>", "fresh"),
                         dict(family="kit", cls=name, instance=label, seq=text))
    st.sample(dict(family="kit", cls=names[0], rotation=3, construction="fresh"))


def window(sp, n, pad=2):
    """rotations whose origin falls within the first and last 30 positions of the match (structure window)"""
    a, b = sp[0]
    pts = set()
    for q in list(range(a - pad, min(b, a + 32))) + list(range(max(a, b - 32), b + pad + 1)):
        pts.add((-q) % n)
    return sorted(pts)


def unit_registry(st, lo, hi, tier):
    rows = regs.table()[lo:hi]
    allcls = gen.kit_classes()
    for row in rows:
        s = row["seq"]
        n = len(s)
        assigned = gen.class_by_name(row["cls"]) if row["cls"] in [c.__name__ for c in allcls] else None
        if assigned is None:
            st.filtered += 1
            continue
        nst, ref, sp = reference(assigned, s)
        base = dict(family="registry", reg=row["reg"], id=row["id"], cls=row["cls"])
        if sp is None:
            rots = sorted(set(range(0, n, max(1, n // 16))))
            check_record(st, "registry", assigned, s, rots, ("fresh",), base)
            continue
        if tier == "quick":
            rots = sorted(set(window(sp, n)) | set(range(0, n, max(1, n // 16))))
            check_record(st, "registry", assigned, s, rots, ("fresh",), base)
        else:
            check_record(st, "registry", assigned, s, range(n), ("fresh",), base)
            # `>>` on the real annotated record over the structure window
            rec0 = row["item"].entity.record
            obs0 = observe(assigned, rec0)
            for r in window(sp, n):
                o = observe(assigned, rec0 >> r)
                st.scenario("accepted" if obs0[0] is True else "rejected", None)
                st.nontrivial += 1
                if o != obs0:
                    st.violation("registry", "annotated-record-changes-under-rotation", dict(base, rotation=r, construction=">>"), obs0, o)
            for other in allcls:
                if other is assigned:
                    continue
                o0 = observe(other, gen.crec(s, "x"))
                if o0[0] is True:
                    nst2, ref2, sp2 = reference(other, s)
                    if sp2 is not None:
                        check_record(st, "registry", other, s, window(sp2, n), ("fresh",), dict(base, cls=other.__name__))
    if rows:
        st.sample(dict(family="registry", reg=rows[0]["reg"], id=rows[0]["id"], cls=rows[0]["cls"], rotation=7, construction="fresh"))


def run_unit(unit, st, tier):
    kind, arg = unit
    if kind == "three-prime":
        unit_three_prime(st, arg)
    elif kind == "generic":
        unit_generic(st, arg)
    elif kind == "degenerate":
        M, V = gen.generic_classes(arg)
        for k, near, w, s in gen.degenerate_records(arg):
            cls = M if k == "module" else V
            check_record(st, "generic", cls, s, range(len(s)), (">>", "fresh"),
                         dict(family="generic", enz=arg, cls_kind=k, lens=None, seq=s, cls=cls.__name__, signature=None))
        st.sample(dict(family="generic", enz=arg, cls_kind="module", rotation=1, construction="fresh", note="degenerate site"))
    elif kind == "kit":
        unit_kit(st, arg)
    else:
        unit_registry(st, arg[0], arg[1], tier)


def replay(scn, sub, st):
    fam = scn["family"]
    if fam == "three-prime":
        from . import c04
        cls = c04.part3(scn["enz"], scn["kind"], tuple(scn["signature"]))
        check_record(st, "generic", cls, scn["seq"], [scn.get("rotation", 0)], (scn.get("construction", "fresh"),),
                     {k: v for k, v in scn.items() if k not in ("rotation", "construction")})
        return
    if fam == "generic-assembly":
        M, V = gen.generic_classes(scn["enz"])
        pv = part_class(scn["enz"], "vector", tuple(scn["signature"]))
        outs = {}
        for r in scn["rotations"]:
            o = asm.run_assemble(pv(gen.crec(rm.rot_right(scn["vector"], r), "v")), [M(gen.crec(scn["module"], "m"))])
            outs.setdefault((o.kind, rm.canon_rot(o.seq.upper()) if o.kind == "product" else o.exc_name), r)
        if len(outs) > 1:
            st.violation("generic", "assembly-outcome-changes-under-rotation-of-the-vector", scn, "one outcome", [[k_[0], str(k_[1])[:60], r_] for k_, r_ in outs.items()])
        return
    if fam == "registry":
        row = regs.by_id(scn["reg"], scn["id"])
        s = row["seq"]
        cls = gen.class_by_name(scn["cls"])
    elif fam == "kit":
        s = scn["seq"]
        cls = gen.class_by_name(scn["cls"])
    else:
        s = scn["seq"]
        kind = scn["cls_kind"]
        M, V = gen.generic_classes(scn["enz"])
        if kind.startswith("part"):
            cls = part_class(scn["enz"], "vector" if "vector" in kind else "module", tuple(scn["signature"]))
        else:
            cls = V if kind in ("vector", "module-as-vector") else M
    r = scn.get("rotation", 0)
    check_record(st, fam, cls, s, [r], (scn.get("construction", "fresh"),), {k: v for k, v in scn.items() if k not in ("rotation", "construction")})
