"""C20 -- Registries are coherent read-only mappings of uniquely identified plasmids.  (E1 + E2)

embedded:   the five registries rebuilt from the working tree, every item, against the .gb sources;
filesystem: every directory content (subsets of a file alphabet up to a bound) on a real directory (OSFS) and
            in memory (MemoryFS), for three `extensions` settings, every yielded key and a menu of absent keys;
combined:   explicit-state BFS over sequences of `<<` / add_registry over a member menu, against a dict model.
"""
import io
import itertools
import os

from .. import boot, gen, refmodel as rm, regs
from ..engine import HarnessError
from Bio import SeqIO
from Bio.Seq import Seq
from Bio.SeqFeature import SeqFeature, FeatureLocation
from moclo.record import CircularRecord

ID = "C20"
TITLE = "registries are coherent read-only mappings"
RULE = ("embedded: one scenario per item; filesystem: one per (directory content, backend, extensions); combined: one per BFS edge; "
        "non-trivial when the directory holds an entry that must be ignored or a case-variant extension, when the combination has "
        "overlapping members, and for every embedded item; distinct by construction")
ASSUMPTIONS = [
    "directory plasmids are typed GenBank files with distinct stems among the candidate extensions",
    "a file whose extension differs from a supported one only by case may or may not be a key, but the mapping must stay coherent",
    "known antibiotic resistances: Kanamycin, Chloramphenicol, Ampicillin, Spectinomycin",
]
RESISTANCES = {"Kanamycin", "Chloramphenicol", "Ampicillin", "Spectinomycin"}
ENTRIES = ["a.gb", "a.gbk", "a.GB", "a.gbff", "a.txt", "a", "b.gb", "b.GBK", "b.gbk", "c.d.gb", "c.d", "x.gb/", "sub/f.gb", "notes.txt"]
EXT_SETTINGS = [None, ("gb",), ("gbff",)]
ABSENT = ["zzz", "a.gb", "a.gbk", "c", "c.d.gb", "sub/f", "sub", "x", "x.gb", "notes", "f", ""]


def bounds(tier):
    return dict(embedded="all items of ytk, ptk, cidar, ecoflex, plant", file_alphabet=ENTRIES, max_entries=4 if tier == "quick" else 6,
                backends=["OSFS (real directory)", "MemoryFS"], plasmid_content=dict(labels=sorted(LABELS), feature_arrangements=SHAPES, part_types=["YTKPart1", "YTKPart3"]), extensions=["default", ["gb"], ["gbff"]], absent_keys=ABSENT,
                combined=dict(members=["A", "B (overlaps A with different items)", "A again", "C (larger, overlaps A and B)", "embedded PTK", "P1 (one local plasmid under a PTK id)", "empty", "NB (a combination of B)", "NCA (a combination of C then A)"], ops=["<<", "add_registry"], depth=4, histories_merged_by_content_from_depth=UNMERGED_DEPTH))


def goals(tier):
    return ["embedded-question-order", "embedded-items", "fs-supported-file", "fs-ignored-file", "fs-case-variant-extension", "fs-subdirectory", "fs-directory-named-like-a-plasmid",
            "fs-dotted-stem", "fs-empty-directory", "fs-question-order", "fs-directory-changes-under-a-live-registry", "fs-content-shapes", "combined-overlap-first-wins", "combined-small-before-large-overlap", "combined-repeated-member", "combined-nested-member-after-an-overlapping-one", "combined-closure-or-depth"]


# ---------------------------------------------------------------------------------------------
# GenBank content for directory plasmids

_gb = {}


def genbank_text(stem, variant=0):
    key = (stem, variant)
    if key not in _gb:
        from . import c16
        from moclo.kits import ytk
        cls = [ytk.YTKPart1, ytk.YTKPart2, ytk.YTKPart3][variant % 3]
        text = c16.kit_instances(cls)[0][0]
        rec = CircularRecord(Seq(text), id="id-" + stem.replace(".", "_"), name="n" + stem.replace(".", "_")[:10],
                             description="plasmid {} v{}".format(stem, variant),
                             features=[SeqFeature(FeatureLocation(1, 5, strand=1), type="CDS", qualifiers={"label": ["AmpR" if variant % 2 == 0 else "KanR"]})],
                             annotations={"topology": "circular", "molecule_type": "DNA"})
        buf = io.StringIO()
        SeqIO.write(rec, buf, "genbank")
        _gb[key] = buf.getvalue()
    return _gb[key]


def populate(fsobj, entries, variant=0):
    for e in entries:
        if e.endswith("/"):
            fsobj.makedirs(e.rstrip("/"), recreate=True)
        elif "/" in e:
            d, f = e.rsplit("/", 1)
            fsobj.makedirs(d, recreate=True)
            fsobj.writetext(e, genbank_text(f.rsplit(".", 1)[0], variant))
        else:
            stem = e.rsplit(".", 1)[0] if "." in e else e
            ext = e.rsplit(".", 1)[1].lower() if "." in e else ""
            if ext in ("gb", "gbk", "gbff"):
                fsobj.writetext(e, genbank_text(stem, variant))
            else:
                fsobj.writetext(e, "not a plasmid\n")


def valid_content(entries):
    """distinct stems among candidate plasmid files"""
    stems = []
    for e in entries:
        if e.endswith("/") or "/" in e or "." not in e:
            continue
        stem, ext = e.rsplit(".", 1)
        if ext.lower() in ("gb", "gbk", "gbff"):
            stems.append(stem)
    return len(stems) == len(set(stems))


def model_keys(entries, extensions):
    exts = tuple(extensions) if extensions else ("gb", "gbk")
    certain, may = set(), set()
    for e in entries:
        if e.endswith("/") or "/" in e or "." not in e:
            continue
        stem, ext = e.rsplit(".", 1)
        if ext in exts:
            certain.add(stem)
            may.add(stem)
        elif ext.lower() in exts:
            may.add(stem)
    return certain, may


def check_mapping(st, sub, scn, reg, certain, may, absent, expect_ids=None):
    """Mapping laws of the property on a live registry. Returns the yielded keys."""
    try:
        keys = list(iter(reg))
        n = len(reg)
    except Exception as e:
        st.violation(sub, "iteration-or-len-raises-" + type(e).__name__, scn, "keys", str(e)[:200])
        return None
    if len(set(keys)) != len(keys):
        st.violation(sub, "key-yielded-twice", scn, sorted(set(keys)), keys)
    if n != len(keys):
        st.violation(sub, "len-differs-from-number-of-keys", scn, len(keys), n)
    ks = set(keys)
    # the rest of the Mapping interface must tell the same story as iteration and item access
    try:
        k2, items, vals = list(reg.keys()), list(reg.items()), list(reg.values())
        if k2 != keys:
            st.violation(sub, "keys()-differs-from-iteration", scn, keys, k2)
        if [k for k, _ in items] != keys or len(vals) != len(keys):
            st.violation(sub, "items()-or-values()-differ-from-iteration", scn, keys, [[k for k, _ in items], len(vals)])
        else:
            for (k, it), v in zip(items, vals):
                if it.id != k or v.id != k:
                    st.violation(sub, "items()-pairs-a-key-with-another-item", dict(scn, key=k), k, [it.id, v.id])
                    break
    except Exception as e:
        st.violation(sub, "mapping-interface-raises-" + type(e).__name__, scn, "keys/items/values", str(e)[:200])
    if certain is not None:
        if not certain <= ks:
            st.violation(sub, "plasmid-file-not-listed", scn, sorted(certain), sorted(ks))
        if not ks <= may:
            st.violation(sub, "ignored-entry-listed-as-key", scn, sorted(may), sorted(ks))
    for k in keys:
        try:
            item = reg[k]
        except KeyError:
            st.violation(sub, "yielded-key-cannot-be-looked-up", dict(scn, key=k), "item", "KeyError")
            continue
        except Exception as e:
            st.violation(sub, "lookup-raises-" + type(e).__name__, dict(scn, key=k), "item", str(e)[:200])
            continue
        try:
            inn = k in reg
        except Exception as e:
            inn = "raises " + type(e).__name__
        if inn is not True:
            st.violation(sub, "yielded-key-not-contained", dict(scn, key=k), True, inn)
        rec = item.entity.record
        if item.id != k or rec.id != k:
            st.violation(sub, "item-id-differs-from-key", dict(scn, key=k), k, [item.id, rec.id])
        if not isinstance(rec, CircularRecord):
            st.violation(sub, "record-is-not-circular", dict(scn, key=k), "CircularRecord", type(rec).__name__)
        if item.resistance not in RESISTANCES:
            st.violation(sub, "unknown-resistance", dict(scn, key=k), sorted(RESISTANCES), item.resistance)
        if expect_ids is not None and k in expect_ids and expect_ids[k] is not None and item.name != expect_ids[k]:
            st.violation(sub, "wrong-item-under-key", dict(scn, key=k), expect_ids[k], item.name)
    for k in absent:
        if k in ks:
            continue
        try:
            reg[k]
            got = "item"
        except KeyError:
            got = "KeyError"
        except Exception as e:
            got = type(e).__name__
        if got != "KeyError":
            cause = "absent-key-found" if got == "item" else "absent-key-raises-" + got
            if got == "item" and "/" in str(k):
                cause = "absent-key-found-in-subdirectory"
            st.violation(sub, cause, dict(scn, key=k), "KeyError", got)
            continue
        try:
            inn = k in reg
        except Exception as e:
            inn = "raises " + type(e).__name__
        if inn is not False:
            st.violation(sub, "absent-key-contained", dict(scn, key=k), False, inn)
        try:
            g = reg.get(k, "dflt")
        except Exception as e:
            g = "raises " + type(e).__name__
        if g != "dflt":
            st.violation(sub, "get-of-absent-key-does-not-return-the-default", dict(scn, key=k), "dflt", str(g)[:80])
    return keys


# ---------------------------------------------------------------------------------------------

def units(tier):
    us = [("embedded", name) for name, _, _ in regs.REGISTRIES]
    maxn = bounds(tier)["max_entries"]
    for size in range(0, maxn + 1):
        combos = list(itertools.combinations(range(len(ENTRIES)), size))
        nchunks = 1 if len(combos) < 50 else (8 if len(combos) < 1200 else 32)
        for c in range(nchunks):
            us.append(("fs", (size, c, nchunks)))
    us.append(("content", 0))
    us.append(("content", 1))
    us.append(("combined", None))
    return us


def run_unit(unit, st, tier):
    kind, arg = unit
    if kind == "embedded":
        unit_embedded(st, arg)
    elif kind == "fs":
        unit_fs(st, *arg)
    elif kind == "content":
        unit_content(st, arg)
    else:
        unit_combined(st, tier)


def unit_embedded(st, name):
    reg = regs.registry_objects()[name]
    src = boot.registry_sources()[name]
    ids = {}
    for stem, path in src.items():
        ids[stem] = SeqIO.read(path, "genbank").id
    scn = dict(family="embedded", registry=name)
    first, last = sorted(src)[0], sorted(src)[-1]
    absent = ["zzz", "", "pYTK000", "DVK_ZZ", first + ".gb", first.lower() + "x", " " + first, first + " "]
    absent += [v for k in (first, last) for v in (k.lower(), k.upper(), k.swapcase()) if v not in src]
    keys = check_mapping(st, "embedded", scn, reg, set(src), set(src), absent)
    for stem, rid in ids.items():
        if stem != rid:
            st.extra["embedded-stem-differs-from-record-id"] += 1
    # the answers of a fresh registry object must not depend on the order of the questions
    ops4 = ["iter", "len", "get", "in"]
    perms = list(itertools.permutations(ops4)) if name == "ptk" else [tuple(ops4[i:] + ops4[:i]) for i in range(4)]
    probe = [first, last, "zzz", first.lower() + "x"]
    ref = None
    # ... nor on an iteration that was started earlier and abandoned (next(iter(r)), a loop left by `break`, any(...))
    perms = list(perms) + [("peek",) + tuple(pm) for pm in perms[:4]] + [("peek3", "peek") + tuple(perms[0])]
    for perm in perms:
        r2 = regs.registry_objects()[name]
        out = {}
        for op in perm:
            if op == "peek":
                next(iter(r2), None)
                continue
            if op == "peek3":
                for i_, _k in enumerate(r2):
                    if i_ >= 2:
                        break
                continue
            if op == "iter":
                out["iter"] = sorted(r2)
            elif op == "len":
                out["len"] = len(r2)
            elif op == "get":
                out["get"] = [(r2[k].id if k in src else None) if k in src else "absent" for k in probe]
            else:
                out["in"] = [k in r2 for k in probe]
        st.scenario("op-order", None, calls=4, nodes=0)
        if ref is None:
            ref = out
        elif out != ref:
            st.violation("embedded", "answers-depend-on-the-order-of-the-questions", dict(family="embedded", registry=name, order=list(perm)),
                         {k: str(v)[:100] for k, v in ref.items()}, {k: str(v)[:100] for k, v in out.items()})
            break
    st.goal("embedded-question-order")
    n = len(keys or [])
    st.evaluations += n
    st.traces += n
    st.states += n
    st.transitions += 3 * n
    st.nontrivial += n
    st.outcomes["embedded-item"] += n
    st.goal("embedded-items", n)
    st.sample(dict(family="embedded", registry=name, items=n))


# ---------------------------------------------------------------------------------------------
# what a plasmid file may look like: every spelling of a resistance label, in every legal arrangement of features

LABELS = {"KanR": "Kanamycin", "KnR": "Kanamycin", "CamR": "Chloramphenicol", "CmR": "Chloramphenicol", "AmpR": "Ampicillin",
          "SmR": "Spectinomycin", "SpecR": "Spectinomycin"}
SHAPES = ["single", "label-twice", "with-second-label", "after-unlabelled-features", "two-features-same-label", "minus-strand-join",
          "label-also-in-note", "across-the-origin", "last-of-many"]


def shaped_features(shape, L, n):
    F = lambda a, b, s, t, q: SeqFeature(FeatureLocation(a, b, strand=s), type=t, qualifiers=q)
    if shape == "single":
        return [F(1, 5, 1, "CDS", {"label": [L]})]
    if shape == "label-twice":
        return [F(1, 5, 1, "CDS", {"label": [L, L]})]
    if shape == "with-second-label":
        return [F(1, 5, 1, "CDS", {"label": ["selection marker", L]})]
    if shape == "after-unlabelled-features":
        return [F(0, 3, 1, "misc_feature", {}), F(2, 8, -1, "promoter", {"label": [L + " promoter"], "note": ["x"]}), F(4, 9, 1, "CDS", {"label": [L]})]
    if shape == "two-features-same-label":
        return [F(1, 5, 1, "CDS", {"label": [L]}), F(0, 9, 1, "misc_feature", {"label": [L]})]
    if shape == "minus-strand-join":
        from Bio.SeqFeature import CompoundLocation
        return [SeqFeature(CompoundLocation([FeatureLocation(6, 9, strand=-1), FeatureLocation(1, 4, strand=-1)]), type="CDS", qualifiers={"label": [L]})]
    if shape == "label-also-in-note":
        return [F(1, 5, 1, "CDS", {"label": [L], "note": [L, "AmpR KanR"], "gene": ["bla"]})]
    if shape == "across-the-origin":
        from Bio.SeqFeature import CompoundLocation
        return [SeqFeature(CompoundLocation([FeatureLocation(n - 3, n, strand=1), FeatureLocation(0, 3, strand=1)]), type="CDS", qualifiers={"label": [L]})]
    if shape == "last-of-many":
        return [F(i, i + 4, 1, "misc_feature", {"label": ["f%d" % i]}) for i in range(6)] + [F(3, 12, -1, "CDS", {"label": [L]})]
    raise HarnessError("unknown shape " + shape)


def content_text(shape, L, kind):
    from . import c16
    from moclo.kits import ytk
    cls = ytk.YTKPart1 if kind == 0 else ytk.YTKPart3
    text = c16.kit_instances(cls)[0][0]
    rec = CircularRecord(Seq(text), id="whatever", name="p", description="plasmid {} {}".format(shape, L),
                         features=shaped_features(shape, L, len(text)), annotations={"topology": "circular", "molecule_type": "DNA"})
    buf = io.StringIO()
    SeqIO.write(rec, buf, "genbank")
    return buf.getvalue(), text


def check_content(st, shape, L, kind, backend, tmpdir):
    import fs
    import shutil
    from fs.memoryfs import MemoryFS
    from moclo.registry.base import FilesystemRegistry
    from moclo.kits import ytk
    scn = dict(family="fs-content", shape=shape, label=L, kind=kind, backend=backend)
    gb, text = content_text(shape, L, kind)
    if backend == "mem":
        f = MemoryFS()
    else:
        os.makedirs(tmpdir, exist_ok=True)
        f = fs.open_fs(tmpdir)
    try:
        f.writetext("p.gb", gb)
        f.writetext("q.gb", genbank_text("q", 0 if kind == 0 else 2))
        reg = FilesystemRegistry(f, ytk.YTKPart if kind == 0 else ytk.YTKPart3)
        check_mapping(st, "content", scn, reg, {"p", "q"}, {"p", "q"}, ["zzz", "p.gb"])
        try:
            item = reg["p"]
        except Exception:
            return           # reported by check_mapping
        if item.resistance != LABELS[L]:
            st.violation("content", "resistance-differs-from-the-labelled-one", scn, LABELS[L], item.resistance)
        if str(item.entity.record.seq).upper() != text.upper():
            st.violation("content", "record-sequence-differs-from-the-file", scn, text[:40], str(item.entity.record.seq)[:40])
        exp_cls = ytk.YTKPart1 if kind == 0 else ytk.YTKPart3
        if type(item.entity) is not exp_cls:
            st.violation("content", "entity-of-another-type", scn, exp_cls.__name__, type(item.entity).__name__)
    finally:
        try:
            f.close()
        except Exception:
            pass
        if backend == "os":
            shutil.rmtree(tmpdir, ignore_errors=True)


def unit_content(st, kind):
    base = os.path.join(boot.scratch_dir(), "fsc-{}-{}".format(kind, os.getpid()))
    i = 0
    for shape in SHAPES:
        for L in sorted(LABELS):
            for backend in ("mem", "os"):
                i += 1
                check_content(st, shape, L, kind, backend, base + "-%d" % i)
                st.scenario("content-" + shape, None, calls=6)
                st.nontrivial += 1
                st.goal("fs-content-shapes")
    st.sample(dict(family="fs-content", shape="label-twice", label="CmR", kind=kind, backend="mem"))


def make_registry(backend, entries, extensions, tmpdir, variant=0):
    import fs
    from fs.memoryfs import MemoryFS
    from moclo.registry.base import FilesystemRegistry
    from moclo.kits import ytk
    if backend == "mem":
        f = MemoryFS()
    else:
        os.makedirs(tmpdir, exist_ok=True)
        f = fs.open_fs(tmpdir)
    populate(f, entries, variant)
    if extensions:
        return FilesystemRegistry(f, ytk.YTKPart, extensions=tuple(extensions)), f
    return FilesystemRegistry(f, ytk.YTKPart), f


def check_dir(st, entries, backend, extensions, tmpdir):
    import shutil
    scn = dict(family="fs", entries=list(entries), backend=backend, extensions=list(extensions) if extensions else None)
    try:
        reg, f = make_registry(backend, entries, extensions, tmpdir)
    except Exception as e:
        raise HarnessError("cannot build directory {}: {}: {}".format(entries, type(e).__name__, e))
    certain, may = model_keys(entries, extensions)
    try:
        check_mapping(st, "filesystem", scn, reg, certain, may, ABSENT)
    finally:
        try:
            f.close()
        except Exception:
            pass
        if backend == "os":
            shutil.rmtree(tmpdir, ignore_errors=True)
    return certain, may


def op_orders(st, entries, backend, extensions, tmpdir):
    """E2 flavour: the answers of one registry object must not depend on the order in which it is asked -- every permutation of
    {iterate, len, look up every candidate key, membership of every candidate key} on a fresh registry each"""
    import shutil
    cand = sorted(set(e.rsplit(".", 1)[0] for e in entries if "." in e and not e.endswith("/")) | {"zzz", "sub/f", "x"})
    ref = None
    base_perms = list(itertools.permutations(["iter", "len", "get", "in"]))
    for perm in base_perms + [("peek",) + pm for pm in base_perms[:6]]:
        reg, f = make_registry(backend, entries, extensions, tmpdir)
        out = {}
        try:
            for op in perm:
                if op == "peek":
                    next(iter(reg), None)          # an iteration that is started and abandoned
                elif op == "iter":
                    out["iter"] = sorted(reg)
                elif op == "len":
                    out["len"] = len(reg)
                elif op == "get":
                    res = {}
                    for k in cand:
                        try:
                            res[k] = reg[k].id
                        except KeyError:
                            res[k] = "KeyError"
                        except Exception as e:
                            res[k] = type(e).__name__
                    out["get"] = res
                else:
                    res = {}
                    for k in cand:
                        try:
                            res[k] = k in reg
                        except Exception as e:
                            res[k] = type(e).__name__
                    out["in"] = res
        finally:
            try:
                f.close()
            except Exception:
                pass
            if backend == "os":
                shutil.rmtree(tmpdir, ignore_errors=True)
        st.scenario("op-order", None, calls=4, nodes=0)
        if ref is None:
            ref = out
        elif out != ref:
            st.violation("filesystem", "answers-depend-on-the-order-of-the-questions",
                         dict(family="fs-order", entries=list(entries), backend=backend, extensions=list(extensions) if extensions else None, order=list(perm)),
                         {k: str(v)[:120] for k, v in ref.items()}, {k: str(v)[:120] for k, v in out.items()})
            return
    # the directory changes under a registry object that was already asked everything (files are added and removed by other
    # programs; the registry itself only reads): every later answer must describe the directory as it is then
    import fs as _fs
    from fs.memoryfs import MemoryFS as _Mem
    from moclo.registry.base import FilesystemRegistry as _FR
    from moclo.kits import ytk as _ytk
    if backend == "mem":
        f2 = _Mem()
    else:
        os.makedirs(tmpdir, exist_ok=True)
        f2 = _fs.open_fs(tmpdir)
    try:
        populate(f2, entries, 0)
        reg2 = _FR(f2, _ytk.YTKPart, extensions=tuple(extensions)) if extensions else _FR(f2, _ytk.YTKPart)
        first = (sorted(reg2), len(reg2), bool(reg2))
        f2.writetext("added_later.gb", genbank_text("added_later", 0))
        scn2 = dict(family="fs-order", entries=list(entries), backend=backend, extensions=list(extensions) if extensions else None, order=["directory-changed"])
        keys2 = sorted(reg2)
        exts = tuple(extensions) if extensions else ("gb", "gbk")
        if ("added_later" in keys2) != ("gb" in exts):
            st.violation("filesystem", "file-added-later-not-listed", scn2, "added_later listed", keys2)
        if len(reg2) != len(keys2):
            st.violation("filesystem", "len-differs-from-number-of-keys-after-the-directory-changed", scn2, len(keys2), len(reg2))
        f2.remove("added_later.gb")
        keys3 = sorted(reg2)
        if len(reg2) != len(keys3) or keys3 != first[0]:
            st.violation("filesystem", "len-differs-from-number-of-keys-after-the-directory-changed", dict(scn2, order=["directory-changed-back"]), [len(keys3), first[0]], [len(reg2), keys3])
        st.scenario("op-order", None, calls=6, nodes=0)
        st.goal("fs-directory-changes-under-a-live-registry")
    finally:
        try:
            f2.close()
        except Exception:
            pass
        if backend == "os":
            shutil.rmtree(tmpdir, ignore_errors=True)
    st.goal("fs-question-order")


def unit_fs(st, size, c, nchunks):
    combos = list(itertools.combinations(range(len(ENTRIES)), size))[c::nchunks]
    base = os.path.join(boot.scratch_dir(), "fs-{}-{}-{}".format(size, c, os.getpid()))
    i = 0
    for combo in combos:
        entries = [ENTRIES[j] for j in combo]
        if not valid_content(entries):
            st.filtered += 1
            continue
        for backend in ("mem", "os"):
            for ext in EXT_SETTINGS:
                i += 1
                certain, may = check_dir(st, entries, backend, ext, base + "-%d" % i)
                st.scenario("dir-%d-keys" % len(certain), None, calls=3 + len(certain) + len(ABSENT))
                if len(entries) > len(certain):
                    st.nontrivial += 1
                if certain:
                    st.goal("fs-supported-file")
                if len(entries) > len(may):
                    st.goal("fs-ignored-file")
                if may - certain:
                    st.goal("fs-case-variant-extension")
                if "sub/f.gb" in entries:
                    st.goal("fs-subdirectory")
                if "x.gb/" in entries:
                    st.goal("fs-directory-named-like-a-plasmid")
                if "c.d.gb" in entries:
                    st.goal("fs-dotted-stem")
                if not entries:
                    st.goal("fs-empty-directory")
                if size <= 2 and ext is None:
                    i += 1
                    op_orders(st, entries, backend, ext, base + "-%d" % i)
    if combos:
        st.sample(dict(family="fs", entries=[ENTRIES[j] for j in combos[-1]], backend="os", extensions=None))


# ---------------------------------------------------------------------------------------------
# combined registries: explicit-state BFS against a dict model

MEMBERS = ["A", "B", "A2", "C", "PTK", "P1", "EMPTY", "NB", "NCA"]
UNMERGED_DEPTH = 3


def member(name, cache):
    """A {a,b}; B {b,c.d} (other content); A2 = A again; C {a,b,c.d,e} (larger, overlaps A and B, other content); NB / NCA nested combinations;
    PTK = embedded Pichia registry (21 items); P1 = one local plasmid stored under the first PTK id; EMPTY"""
    if name not in cache:
        if name == "A":
            cache[name] = make_registry("mem", ["a.gb", "b.gb"], None, None, variant=0)[0]
        elif name == "B":
            cache[name] = make_registry("mem", ["b.gb", "c.d.gb"], None, None, variant=1)[0]
        elif name == "A2":
            cache[name] = make_registry("mem", ["a.gb", "b.gb"], None, None, variant=0)[0]
        elif name == "C":
            cache[name] = make_registry("mem", ["a.gb", "b.gbk", "c.d.gb", "e.gb"], None, None, variant=2)[0]
        elif name == "EMPTY":
            cache[name] = make_registry("mem", ["notes.txt"], None, None)[0]
        elif name == "PTK":
            cache[name] = regs.registry_objects()["ptk"]
        elif name == "P1":
            first = sorted(regs.registry_objects()["ptk"])[0]
            cache[name] = make_registry("mem", [first + ".gb"], None, None, variant=1)[0]
        elif name in ("NB", "NCA"):
            # members that are themselves combinations: of B alone; of C then A (first-wins already applied inside)
            from moclo.registry.base import CombinedRegistry
            n = CombinedRegistry()
            for inner in (["B"] if name == "NB" else ["C", "A"]):
                n.add_registry(member(inner + "'", cache))
            cache[name] = n
        elif name.endswith("'"):
            # private copies for the nested members (same content as the member they are named after)
            spec = {"A'": (["a.gb", "b.gb"], 0), "B'": (["b.gb", "c.d.gb"], 1), "C'": (["a.gb", "b.gbk", "c.d.gb", "e.gb"], 2)}[name]
            cache[name] = make_registry("mem", spec[0], None, None, variant=spec[1])[0]
    return cache[name]


def member_model(name, cache):
    """[(key, item name)] of a member in iteration order, read through the member itself (members are checked by the other sub-spaces)"""
    reg = member(name, cache)
    return [(k, reg[k].name) for k in reg]


def unit_combined(st, tier):
    from moclo.registry.base import CombinedRegistry
    cache = {}
    try:
        models = {m: member_model(m, cache) for m in MEMBERS}
    except Exception as e:
        # a member registry that cannot even be read through its own keys is incoherent (the filesystem / embedded
        # sub-spaces report the details); combinations of incoherent members are not explored
        st.violation("combined", "member-registry-cannot-be-read-through-its-own-keys", dict(family="combined", history=[]),
                     "every yielded key can be looked up", "{}: {}".format(type(e).__name__, e))
        st.goal("combined-closure-or-depth")
        return
    depth = 4
    ops = [(op, m) for m in MEMBERS for op in ("<<", "add")]

    def build(hist):
        c = CombinedRegistry()
        for op, m in hist:
            if op == "<<":
                r = c << member(m, cache)
                if r is not c:
                    st.violation("combined", "lshift-does-not-return-the-registry", dict(family="combined", history=[list(h) for h in hist]), "self", type(r).__name__)
            else:
                c.add_registry(member(m, cache))
        return c

    def model(hist):
        d = rm.DictRegistry()
        for op, m in hist:
            d.add(models[m])
        return d.d

    seen = {(): None}
    canon0 = ()
    seen_states = {canon0}
    frontier = [[]]
    nedges = 0
    closed = True
    while frontier:
        nxt = []
        for hist in frontier:
            for op in ops:
                nh = hist + [op]
                c = build(nh)
                md = model(nh)
                scn = dict(family="combined", history=[list(h) for h in nh])
                check_mapping(st, "combined", scn, c, set(md), set(md), ["zzz", "a.gb", ""], expect_ids=md)
                nedges += 1
                st.scenario("combined-edge", None, calls=len(md) + 4, nodes=0)
                names = [m for _, m in nh]
                if ("A" in names and "B" in names) or ("C" in names and ("A" in names or "B" in names)) or ("P1" in names and "PTK" in names):
                    st.nontrivial += 1
                    st.goal("combined-overlap-first-wins")
                    if names.index("P1") < names.index("PTK") if ("P1" in names and "PTK" in names) else False:
                        st.goal("combined-small-before-large-overlap")
                if len(set(names)) < len(names) or ("A" in names and "A2" in names):
                    st.goal("combined-repeated-member")
                if any(x in ("NB", "NCA") for x in names[1:]):
                    st.goal("combined-nested-member-after-an-overlapping-one")
                canon = tuple(sorted(md.items()))
                # histories are merged by the content the model predicts only from depth 3 on: up to there every history is
                # extended (what a registry object keeps besides its content -- insertion order, counters -- may matter later)
                new_state = canon not in seen_states
                seen_states.add(canon)
                if new_state or len(nh) < UNMERGED_DEPTH:
                    if len(nh) < depth:
                        nxt.append(nh)
                    elif new_state:
                        closed = False
        frontier = nxt
    st.states += len(seen_states)
    st.extra["combined_states"] = len(seen_states)
    st.extra["combined_edges"] = nedges
    st.goal("combined-closure-or-depth")
    st.sample(dict(family="combined", history=[["<<", "A"], ["add", "B"], ["<<", "PTK"]]))


def replay(scn, sub, st):
    fam = scn.get("family")
    if fam == "embedded":
        unit_embedded(st, scn["registry"])
    elif fam == "fs-order":
        op_orders(st, scn["entries"], scn["backend"], scn["extensions"], os.path.join(boot.scratch_dir(), "replay-fs-order"))
    elif fam == "fs-content":
        check_content(st, scn["shape"], scn["label"], scn["kind"], scn["backend"], os.path.join(boot.scratch_dir(), "replay-fs-content"))
    elif fam == "fs":
        tmp = os.path.join(boot.scratch_dir(), "replay-fs")
        check_dir(st, scn["entries"], scn["backend"], scn["extensions"], tmp)
    else:
        from moclo.registry.base import CombinedRegistry
        cache = {}
        if not scn.get("history"):
            try:
                for m in MEMBERS:
                    member_model(m, cache)
            except Exception as e:
                st.violation("combined", "member-registry-cannot-be-read-through-its-own-keys", scn, "readable", str(e))
            return
        c = CombinedRegistry()
        d = rm.DictRegistry()
        for op, m in scn["history"]:
            if op == "<<":
                c << member(m, cache)
            else:
                c.add_registry(member(m, cache))
            d.add(member_model(m, cache))
        check_mapping(st, "combined", {k: v for k, v in scn.items() if k != "key"}, c, set(d.d), set(d.d), ["zzz", "a.gb", ""], expect_ids=d.d)
