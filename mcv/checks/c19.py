"""C19 -- Parts of the same type are interchangeable.  (E1 over pairs)

(a) generated: every base assembly (enzyme menu x k = 1..3) x every chain position x every replacement of a menu
    (other body length, other content, other backbone, rotated, stored on the reverse strand);
(b) registries: every same-overhang pair of module plasmids of every embedded registry in a k=1 assembly with a
    generated vector; canonical chains found by search from every registry vector, every position replaced by
    every same-type plasmid.
Oracle: both assemblies succeed; products aligned at the vector fragment agree byte-for-byte outside the replaced
segment, which equals the replacement's target.
"""
import itertools

from .. import asm, gen, refmodel as rm, regs
from ..engine import HarnessError
from Bio.Seq import Seq
from moclo.record import CircularRecord
from moclo.core import modules as _modules

ID = "C19"
TITLE = "parts of the same type are interchangeable"
RULE = ("one scenario per (base assembly, position, replacement); non-trivial always (two assemblies compared); "
        "distinct by construction")
ASSUMPTIONS = [
    "the entity objects of the untouched modules and of the vector are re-used between the two assemblies that are compared (half of the base assemblies are stored with the origin inside the cassette)",
    "replacement modules are valid modules with the same two overhangs (typed by the implementation and cross-checked by string search)",
    "registry plasmids that do not carry exactly two cutter sites are skipped for the model-based part (counted as filtered)",
]
REPLACEMENTS = ["longer-body", "minimal-body", "other-content", "other-backbone", "rotated", "reverse-strand-stored", "lower-case"]


def bounds(tier):
    return dict(enzymes=[n for n, _ in gen.enzymes()] if tier == "thorough" else ["BsaI", "BbsI", "BspQI", "BspD6I", "FokI", "BccI"],
                mixed_enzymes="vector / module enzyme pairs " + str(MIXED) + ": replacement modules whose backbone holds a site of the vector's enzyme",
                k=[1, 2, 3], replacements=REPLACEMENTS, replacement_containers=gen.CONTAINERS,
                registry_pairs="all same-overhang pairs of valid module plasmids of each registry (k=1, generated vector)",
                canonical_chains="first simple chain from each registry vector (search over module types), every position x every same-type plasmid")


def goals(tier):
    return ["mixed-enzymes", "generated-replacement", "replacement-in-another-container", "reverse-strand-stored", "registry-pair", "canonical-chain", "chain-length>=4", "ytk", "cidar", "ecoflex", "plant"]


def align(prod, anchor):
    """rotate the circular product so that it starts with `anchor` (the vector fragment); None if absent/ambiguous"""
    d = (prod + prod).upper()
    a = anchor.upper()
    i = d.find(a)
    if i < 0 or i >= len(prod):
        return None
    j = d.find(a, i + 1)
    if 0 <= j < len(prod):
        return None
    return (prod + prod)[i:i + len(prod)]


def compare_products(st, scn, p1, p2, anchor, pre_len, old_seg, new_seg):
    """p1/p2 products; segments: anchor . [pre_len letters] . segment . rest"""
    a1, a2 = align(p1, anchor), align(p2, anchor)
    if a1 is None or a2 is None:
        st.filtered += 1
        return
    u1, u2 = a1.upper(), a2.upper()
    s = len(anchor) + pre_len
    if u1[:s] != u2[:s]:
        st.violation("interchange", "segment-before-the-replaced-module-changed", scn, u1[:s][-40:], u2[:s][-40:])
        return
    if u1[s:s + len(old_seg)] != old_seg.upper() or u2[s:s + len(new_seg)] != new_seg.upper():
        st.violation("interchange", "replaced-segment-is-not-the-replacement-target", scn, new_seg[:60], u2[s:s + len(new_seg)][:60])
        return
    if u1[s + len(old_seg):] != u2[s + len(new_seg):]:
        st.violation("interchange", "segment-after-the-replaced-module-changed", scn, u1[s + len(old_seg):][:40], u2[s + len(new_seg):][:40])


# ---------------------------------------------------------------------------------------------

def replacement(base, j, how):
    g = gen.geometry_of(gen.enzyme(base["enz"]))
    o5, o3 = base["ovs"][j], base["ovs"][j + 1]
    body, bb = base["bodies"][j], base["mbbs"][j]
    x, y = base["fills"][j]
    forbid = [g.site]
    if how == "longer-body":
        nb = body + gen.word(1, 70, 7, forbid)
        return gen.mk_module(g, o5, nb, o3, bb, x=x, y=y), o5 + nb
    if how == "minimal-body":
        nb = gen.word(1, 33, 2, forbid)
        return gen.mk_module(g, o5, nb, o3, bb, x=x, y=y), o5 + nb
    if how == "other-content":
        nb = gen.word(1, 21, len(body), forbid)
        return gen.mk_module(g, o5, nb, o3, bb, x=x, y=y), o5 + nb
    if how == "other-backbone":
        return gen.mk_module(g, o5, body, o3, gen.word(0, 77, len(bb) + 5, forbid), x=y, y=x), o5 + body
    if how == "rotated":
        s = gen.mk_module(g, o5, body[::-1], o3, bb, x=x, y=y)
        return rm.rot_right(s, len(g.site) + g.off + 2), o5 + body[::-1]
    if how == "reverse-strand-stored":
        nb = gen.word(1, 12, len(body) + 1, forbid)
        s = gen.mk_module(g, rm.revcomp(o3), rm.revcomp(nb), rm.revcomp(o5), bb, x=x, y=y)
        return rm.revcomp(s), o5 + nb
    if how == "lower-case":
        nb = gen.word(1, 44, len(body) + 2, forbid)
        return gen.mk_module(g, o5, nb, o3, bb, x=x, y=y).lower(), o5 + nb
    raise ValueError(how)


def unit_generated(st, enz, tier):
    g = gen.geometry_of(gen.enzyme(enz))
    M, V = gen.generic_classes(enz)
    gen.prime([M, V])
    for k in (1, 2, 3):
        for scheme in (0, 1):
            base = asm.base_scenario(enz, k, scheme=scheme, ovscheme=scheme)
            if base is None or not asm.well_formed(base)[0]:
                st.filtered += 1
                continue
            vec, mods = asm.pieces_to_plasmids(base)
            if scheme == 1:
                # stored with the origin inside the cassette (the match wraps around the end of the record)
                mods = [rm.rot_right(m, len(m) - len(g.site) - g.off - 2) for m in mods]
                vec = rm.rot_right(vec, 3)
            # the SAME entity objects take part in the first assembly and in every assembly with one module replaced
            vent = V(gen.crec(vec, "v"))
            ments = [M(gen.crec(m, "m%d" % i)) for i, m in enumerate(mods)]
            o1 = asm.run_assemble(vent, list(ments))
            if o1.kind != "product":
                st.violation("generated", "base-assembly-fails", dict(family="generated", enz=enz, k=k, scheme=scheme), "product", o1.brief())
                continue
            anchor = base["ovs"][k] + base["vbb"]
            for j in range(k):
                for how in REPLACEMENTS:
                    scn = dict(family="generated", enz=enz, k=k, scheme=scheme, position=j, how=how)
                    rep, new_target = replacement(base, j, how)
                    if rm.count_sites(rep, g) != 2:
                        st.filtered += 1
                        continue
                    # the replacement is handed over in each container a user may use (plain, MutableSeq, fully annotated)
                    for cont in gen.CONTAINERS:
                        scn = dict(family="generated", enz=enz, k=k, scheme=scheme, position=j, how=how, container=cont)
                        re_ = M(gen.contained(rep, cont, "rep"))
                        try:
                            typed_ok = re_.is_valid() and (str(re_.overhang_start()).upper(), str(re_.overhang_end()).upper()) == (base["ovs"][j], base["ovs"][j + 1])
                        except Exception as e:
                            st.violation("interchange", "replacement-cannot-be-typed-" + type(e).__name__, scn, "a module with the same overhangs", str(e)[:160])
                            continue
                        if not typed_ok:
                            if cont == "seq":
                                st.filtered += 1
                                st.extra["replacement-not-typed-as-same-overhang-module"] += 1
                                break
                            st.violation("interchange", "replacement-typed-differently-in-container-" + cont, scn, "same verdict and overhangs as the plain record", "differs")
                            continue
                        ms = list(ments)
                        ms[j] = re_
                        o2 = asm.run_assemble(vent, ms)
                        st.scenario("generated", None, calls=2)
                        st.nontrivial += 1
                        st.goal("generated-replacement")
                        if cont != "seq":
                            st.goal("replacement-in-another-container")
                        if how == "reverse-strand-stored":
                            st.goal("reverse-strand-stored")
                        if o2.kind != "product":
                            st.violation("interchange", "assembly-with-replacement-fails-" + str(o2.exc_name), scn, "product", o2.brief())
                            continue
                        pre = sum(g.ov + len(base["bodies"][i]) for i in range(j))
                        compare_products(st, scn, o1.seq, o2.seq, anchor, pre, base["ovs"][j] + base["bodies"][j], new_target)
    st.sample(dict(family="generated", enz=enz, k=2, scheme=0, position=1, how="reverse-strand-stored"))


# ---------------------------------------------------------------------------------------------

KIT_OF_REG = {"ytk": "ytk", "ptk": "ytk", "cidar": "cidar", "ecoflex": "ecoflex", "plant": "plant"}
_typed = {}


def typed_rows(regname):
    """rows of a registry typed by their own entity class: modules -> (start, end, fragment text), vectors likewise"""
    if regname in _typed:
        return _typed[regname]
    g = rm.KIT_GEOMETRY["BsaI"]
    mods, vecs = [], []
    for row in regs.table():
        if row["reg"] != regname:
            continue
        ent = row["item"].entity
        cls = type(ent)
        if cls.cutter.__name__ != "BsaI":
            continue
        frag = rm.site_free_fragment(row["seq"], g)
        if frag is None:
            continue
        e = cls(CircularRecord(Seq(row["seq"]), id=row["id"]))
        try:
            if not e.is_valid():
                continue
            s, en = str(e.overhang_start()).upper(), str(e.overhang_end()).upper()
        except Exception:
            continue
        if gen.is_vector_class(cls):
            if (frag["o5"].upper(), frag["o3"].upper()) == (s, en):
                vecs.append(dict(row=row, cls=cls, up=s, down=en, frag=frag["text"]))
        else:
            if (frag["o5"].upper(), frag["o3"].upper()) == (s, en):
                mods.append(dict(row=row, cls=cls, start=s, end=en, frag=frag["text"]))
    _typed[regname] = (mods, vecs)
    return _typed[regname]


def ent_of(d):
    return d["cls"](CircularRecord(Seq(d["row"]["seq"]), id=d["row"]["id"]))


def gen_vector(down, up):
    g = rm.KIT_GEOMETRY["BsaI"]
    forbid = ["GGTCTC", "CGTCTC", "GAAGAC"]
    bb = gen.word(0, 61, 24, forbid)
    s = gen.mk_vector(g, up, down, bb, gen.word(1, 47, 5, forbid), x=gen.word(0, 29, 1, forbid), y=gen.word(0, 41, 1, forbid))
    if rm.count_sites(s, g) != 2:
        return None
    return s, up + bb


def unit_registry_pairs(st, regname, tier):
    M, V = gen.generic_classes("BsaI")
    mods, vecs = typed_rows(regname)
    gen.prime(list({d["cls"] for d in mods}) + [V])
    bytype = {}
    for d in mods:
        bytype.setdefault((d["start"], d["end"]), []).append(d)
    for (s, e), members in sorted(bytype.items()):
        if s == e or len(members) < 2:
            continue
        gv = gen_vector(s, e)
        if gv is None:
            st.filtered += 1
            continue
        vs, anchor = gv
        base = members[0]
        o1 = asm.run_assemble(V(gen.crec(vs, "gv")), [ent_of(base)])
        if o1.kind != "product":
            st.violation("registry", "base-assembly-fails-" + str(o1.exc_name), dict(family="pairs", reg=regname, type=[s, e], base=base["row"]["id"]), "product", o1.brief())
            continue
        for rep in members[1:]:
            scn = dict(family="pairs", reg=regname, type=[s, e], base=base["row"]["id"], replacement=rep["row"]["id"])
            o2 = asm.run_assemble(V(gen.crec(vs, "gv")), [ent_of(rep)])
            st.scenario("registry-pair", None, calls=2)
            st.nontrivial += 1
            st.goal("registry-pair")
            st.goal(KIT_OF_REG[regname])
            if o2.kind != "product":
                st.violation("interchange", "assembly-with-replacement-fails-" + str(o2.exc_name), scn, "product", o2.brief())
                continue
            compare_products(st, scn, o1.seq, o2.seq, anchor, 0, base["frag"], rep["frag"])
    st.sample(dict(family="pairs", reg=regname))


def find_chain(down, up, bytype, maxlen=10):
    """first simple chain of module types from `down` to `up` (depth-first, types in sorted order, shortest first)"""
    types = sorted(bytype)
    best = None

    def dfs(cur, path, used):
        nonlocal best
        if best is not None and len(path) >= len(best):
            return
        if cur == up and path:
            best = list(path)
            return
        if len(path) >= maxlen:
            return
        for t in types:
            if t[0] == cur and t not in used and t[0] != t[1]:
                starts = set(p[0] for p in path)
                if t[0] in starts or rm.revcomp(t[0]) in starts:
                    continue
                dfs(t[1], path + [t], used | {t})
    dfs(down, [], frozenset())
    return best


def longest_chain(down, up, bytype, maxlen=10):
    """a longest simple chain (more positions to replace), deterministic"""
    types = sorted(bytype)
    best = [None]

    def dfs(cur, path, starts):
        if cur == up and path:
            if best[0] is None or len(path) > len(best[0]):
                best[0] = list(path)
            return
        if len(path) >= maxlen:
            return
        for t in types:
            if t[0] == cur and t[0] != t[1] and t[0] not in starts and rm.revcomp(t[0]) not in starts and t[1] != down:
                dfs(t[1], path + [t], starts | {t[0]})
    dfs(down, [], frozenset())
    return best[0]


def unit_registry_chains(st, regname, tier):
    mods, vecs = typed_rows(regname)
    if regname == "ptk":
        mods = mods + typed_rows("ytk")[0]
    gen.prime(list({d["cls"] for d in mods} | {d["cls"] for d in vecs}))
    bytype = {}
    for d in mods:
        bytype.setdefault((d["start"], d["end"]), []).append(d)
    vlist = list(vecs)
    if not vlist:
        # no vector plasmids in this registry (plant): close the canonical chain with a generated vector
        V = gen.generic_classes("BsaI")[1]
        gen.prime([V])
        gv = gen_vector("GGAG", "CGCT")
        if gv:
            vlist = [dict(row=dict(id="generated-vector", seq=gv[0]), cls=V, up="CGCT", down="GGAG", frag=gv[1])]
    seen_types = set()
    for v in vlist:
        key = (v["down"], v["up"])
        if key in seen_types:
            continue
        seen_types.add(key)
        chain = longest_chain(v["down"], v["up"], bytype)
        if not chain:
            st.filtered += 1
            continue
        base_mods = [bytype[t][0] for t in chain]
        vent = v["cls"](CircularRecord(Seq(v["row"]["seq"]), id=v["row"]["id"]))
        o1 = asm.run_assemble(vent, [ent_of(d) for d in base_mods])
        scn0 = dict(family="chains", reg=regname, vector=v["row"]["id"], chain=[d["row"]["id"] for d in base_mods])
        if o1.kind != "product":
            st.violation("registry", "canonical-assembly-fails-" + str(o1.exc_name), scn0, "product", o1.brief())
            continue
        st.goal("canonical-chain")
        if len(chain) >= 4:
            st.goal("chain-length>=4")
        for j, t in enumerate(chain):
            pre = sum(len(d["frag"]) for d in base_mods[:j])
            for rep in bytype[t][1:]:
                ms = [ent_of(d) for d in base_mods]
                ms[j] = ent_of(rep)
                vent2 = v["cls"](CircularRecord(Seq(v["row"]["seq"]), id=v["row"]["id"]))
                o2 = asm.run_assemble(vent2, list(reversed(ms)))
                scn = dict(scn0, position=j, replacement=rep["row"]["id"])
                st.scenario("registry-chain", None, calls=2)
                st.nontrivial += 1
                st.goal(KIT_OF_REG[regname])
                if o2.kind != "product":
                    st.violation("interchange", "assembly-with-replacement-fails-" + str(o2.exc_name), scn, "product", o2.brief())
                    continue
                compare_products(st, scn, o1.seq, o2.seq, v["frag"], pre, base_mods[j]["frag"], rep["frag"])
    st.sample(dict(family="chains", reg=regname))


MIXED = [("BbsI", "BsaI"), ("BsaI", "BsmBI"), ("BsmBI", "BbsI")]       # (vector enzyme, module enzyme): both leave 4-nt overhangs


def unit_mixed(st, venz, menz):
    """The vector is opened by one enzyme, the modules are released by another (as CIDAR's DVA vectors and BsaI parts).  A module is
    replaced by modules with the same overhangs whose BACKBONE -- which never enters the product -- holds a site of the vector's
    enzyme, in either orientation."""
    gv, gm = gen.geometry_of(gen.enzyme(venz)), gen.geometry_of(gen.enzyme(menz))
    M, V = gen.generic_classes(menz)[0], gen.generic_classes(venz)[1]
    gen.prime([M, V])
    forbid = [gv.site, gv.rsite, gm.site, gm.rsite]
    words = gen.overhang_words(4, 4, 1)
    for k in (1, 2):
        ovs = words[: k + 1]
        bodies = [gen.word(i, 5 + 3 * i, 4 + i, forbid) for i in range(k)]
        vbb = gen.word(1, 61, 6, forbid)
        vec = gen.mk_vector(gv, ovs[k], ovs[0], vbb, gen.word(0, 47, 4, forbid), x=gen.word(0, 29, gv.off, forbid), y=gen.word(0, 41, gv.off, forbid))
        mods = [gen.mk_module(gm, ovs[i], bodies[i], ovs[i + 1], gen.word(i + 1, 31, 5, forbid), x=gen.word(0, 3, gm.off, forbid), y=gen.word(0, 17, gm.off, forbid))
                for i in range(k)]
        if rm.count_sites(vec, gv) != 2 or any(rm.count_sites(m, gm) != 2 for m in mods):
            st.filtered += 1
            continue
        vent = V(gen.crec(vec, "v"))
        ments = [M(gen.crec(m, "m%d" % i)) for i, m in enumerate(mods)]
        o1 = asm.run_assemble(vent, list(ments))
        scn0 = dict(family="mixed", vector_enzyme=venz, module_enzyme=menz, k=k)
        if o1.kind != "product":
            st.violation("mixed", "base-assembly-fails-" + str(o1.exc_name), scn0, "product", o1.brief())
            continue
        anchor = ovs[k] + vbb
        for j in range(k):
            for site, label in ((gv.site, "vector-enzyme-site-in-the-backbone"), (gv.rsite, "reverse-vector-enzyme-site-in-the-backbone"), ("", "plain-backbone")):
                for nb in (bodies[j], gen.word(3, 40 + j, len(bodies[j]) + 3, forbid)):
                    rep = gen.mk_module(gm, ovs[j], nb, ovs[j + 1], "AT" + site + "TA", x=gen.word(0, 3, gm.off, forbid), y=gen.word(0, 17, gm.off, forbid))
                    if rm.count_sites(rep, gm) != 2:
                        st.filtered += 1
                        continue
                    scn = dict(scn0, position=j, replacement=label, new_body=nb != bodies[j])
                    ms = list(ments)
                    ms[j] = M(gen.crec(rep, "rep"))
                    o2 = asm.run_assemble(vent, ms)
                    st.scenario("mixed", None, calls=2)
                    st.nontrivial += 1
                    st.goal("mixed-enzymes")
                    if o2.kind != "product":
                        st.violation("interchange", "assembly-with-replacement-fails-" + str(o2.exc_name), scn, "product", o2.brief())
                        continue
                    pre = sum(4 + len(bodies[i]) for i in range(j))
                    compare_products(st, scn, o1.seq, o2.seq, anchor, pre, ovs[j] + bodies[j], ovs[j] + nb)
    st.sample(dict(family="mixed", vector_enzyme=venz, module_enzyme=menz, k=2, position=1))


def units(tier):
    us = [("generated", enz) for enz in bounds(tier)["enzymes"]] + [("mixed", m) for m in MIXED]
    regs.table()
    for r in ("ytk", "ptk", "cidar", "ecoflex", "plant"):
        us.append(("pairs", r))
        us.append(("chains", r))
    return us


def run_unit(unit, st, tier):
    kind, arg = unit
    if kind == "generated":
        unit_generated(st, arg, tier)
    elif kind == "mixed":
        unit_mixed(st, *arg)
    elif kind == "pairs":
        unit_registry_pairs(st, arg, tier)
    else:
        unit_registry_chains(st, arg, tier)


def replay(scn, sub, st):
    fam = scn.get("family")
    if fam == "generated":
        # re-run the whole (enzyme) unit restricted by the recorded scenario is cheap enough
        tmp = st
        unit_generated(tmp, scn["enz"], "thorough")
    elif fam == "mixed":
        unit_mixed(st, scn["vector_enzyme"], scn["module_enzyme"])
    elif fam == "pairs":
        unit_registry_pairs(st, scn["reg"], "thorough")
    else:
        unit_registry_chains(st, scn["reg"], "thorough")
