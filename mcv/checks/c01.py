"""C01 -- Assembly yields exactly the Golden Gate ligation product.  (E1, deviation-bounded)

Base: enzyme geometry x chain length k x content scheme x junction scheme (plain / one palindromic
junction).  Deviation axes away from the canonical presentation: length of one free region,
rotation of one plasmid (all n values), argument order (all k! permutations).  Bound 1 is always
complete; quick adds the pairs (region length, rotation of the plasmid holding that region);
thorough adds every pair of axes (rotation x rotation restricted to structure-window rotations).
A second, content-exhaustive sub-space covers the 1- and 2-nt overhang geometries.
"""
import itertools

from .. import asm, gen, refmodel as rm

ID = "C01"
TITLE = "assembly yields exactly the Golden Gate ligation product"
RULE = ("each scenario = base point + deviation vector, enumerated once; non-trivial when any plasmid is rotated, "
        "or the argument order is not the chain order, or k >= 2, or a region has a boundary length")
ASSUMPTIONS = [
    "documented minimal lengths: module body >= 2 nt, vector backbone >= 2 nt (DESIGN 5.1)",
    "REBASE data shipped with Biopython for the non-kit enzymes (trusted base); kit cutters use literature values",
    "region contents come from two aperiodic scheme words (content-exhaustive only for 1-2 nt overhangs)",
]
REGION_ALTS = {"body": [2, 3, "ov", "ov+2", 9], "mbb": [0, 1, "ov", 8], "vbb": [2, 3, "ov", 9], "vph": [0, 1, "ov", 8]}


def bounds(tier):
    return dict(three_prime_cutters="BtsI, BsrDI, BseRI through signature-typed parts: k = 1..3, every rotation of every participant, every argument order",
                enzymes="all distinct 5'-overhang single-cut geometries with an unambiguous 5-7 nt site (computed at run time)",
                k=[1, 2, 3], schemes=[0, 1], annotations="every participant carrying features of every location flavour (exact, <a..>b, within, between, one-of, order, join across the origin, zero-length, remote reference) and qualifier shape: alone and x every rotation of one plasmid", spelling="each participant in lower case in turn, and all (bound 1)", junctions=["plain", "palindromic@0", "palindromic@last"],
                region_alternatives=REGION_ALTS, deviation_bound=2,
                pairs=("(region length, rotation of its plasmid), (permutation, rotation of one plasmid)" if tier == "quick"
                       else "all pairs of axes; rotation x rotation over structure-window rotations"),
                content_menu="6 enzymes, k=2: homopolymers, repeats, GC/AT-only, partial sites, codons, junction words at either end, mixed case, ambiguity codes -- in each body, backbone, placeholder",
                sizes="3 enzymes: bodies/backbones/placeholders of 257..3001 (10007 in thorough) nt; chains of 4..8 modules with rotated / reversed argument orders",
                overhang_words="BsaI, BbsI, BsmBI, BspQI, k=1: every word in each junction role (quick) / every ordered pair (thorough)",
                content_exhaustive=dict(ov=[1, 2], overhang_assignments="all over ACGT^ov for which the model predicts the full chain",
                                        body_len=2 if tier == "quick" else 3,
                                        k2_bodies=["AC", "GT", "CA", "TG"] if tier == "quick" else "all of ACGT^2"))


def goals(tier):
    return ["every-enzyme:" + n for n, _ in gen.enzymes()] + ["k=3", "origin-in-site", "origin-in-filler", "origin-in-overhang", "origin-in-target",
            "origin-in-backbone", "non-identity-permutation", "palindromic-junction", "min-body", "empty-backbone",
            "empty-placeholder", "content-exhaustive", "every-overhang-word", "lower-case-participant", "awkward-content", "large-plasmid", "long-chain", "annotated-participants", "ambiguity-codes-in-a-backbone", "three-prime-overhang-enzyme"]


def base_points(tier):
    pts = []
    for name, g in gen.enzymes():
        for k in (1, 2, 3):
            for scheme in (0, 1):
                juncs = [None]
                if g.ov % 2 == 0 and scheme == 0:
                    juncs += [0] + ([k - 1] if k > 1 else [])
                for pj in juncs:
                    pts.append((name, k, scheme, pj))
    return pts


def units(tier):
    us = [("base", p) for p in base_points(tier)]
    for name, g in gen.enzymes():
        if g.ov <= 2:
            for k in (1, 2):
                for w0 in ["".join(t) for t in itertools.product("ACGT", repeat=g.ov)]:
                    us.append(("content", (name, k, w0)))
    for name in ("BsaI", "BbsI", "BsmBI", "BspQI", "FokI", "BspD6I"):
        us.append(("menu", name))
    for name in ("BsaI", "BbsI", "BtgZI"):
        us.append(("large", name))
    for name in (("BtsI", "BsrDI", "BseRI", "MnlI") if tier == "quick" else [n for n, _ in gen.three_prime_enzymes()]):
        us.append(("three-prime", name))
    # every overhang word of the 3- and 4-nt kit geometries in each junction role (k = 1); thorough: every pair
    for name in ("BsaI", "BbsI", "BsmBI", "BspQI"):
        g = gen.geometry_of(gen.enzyme(name))
        words = ["".join(t) for t in itertools.product("ACGT", repeat=g.ov)]
        nchunks = 4 if tier == "quick" else 32
        for c in range(nchunks):
            us.append(("words", (name, c, nchunks)))
    return us


def regions(k):
    return ["body%d" % i for i in range(k)] + ["mbb%d" % i for i in range(k)] + ["vbb", "vph"]


def plasmid_of_region(r, k):
    """index into rot[]: 0 = vector, i+1 = module i"""
    if r in ("vbb", "vph"):
        return 0
    return int(r[-1]) + 1


def origin_zone(scn, which, r):
    """Where does the origin of plasmid `which` fall after rotating right by r? (model side)"""
    g = gen.geometry_of(gen.enzyme(scn["enz"]))
    vec, mods = asm.pieces_to_plasmids(scn)
    s = vec if which == 0 else mods[which - 1]
    n = len(s)
    p = (-r) % n          # original index that becomes position 0
    L = len(g.site)
    if which == 0:
        k = scn["k"]
        marks = [("overhang", g.ov), ("backbone", len(scn["vbb"])), ("overhang", g.ov), ("filler", g.off), ("site", L),
                 ("placeholder", len(scn["vph"])), ("site", L), ("filler", g.off)]
    else:
        i = which - 1
        marks = [("site", L), ("filler", g.off), ("overhang", g.ov), ("target", len(scn["bodies"][i])), ("overhang", g.ov),
                 ("filler", g.off), ("site", L), ("backbone", len(scn["mbbs"][i]))]
    pos = 0
    for name, ln in marks:
        if pos <= p < pos + ln:
            return name, (p - pos)
        pos += ln
    return "?", 0


def check(st, scn, expect=None):
    """Run one scenario on the implementation and compare with the constructive product."""
    exp = expect if expect is not None else asm.constructive_product(scn)
    o = asm.assemble_scenario(scn)
    rotated = any(scn["rot"])
    if o.kind != "product":
        cause = "no-product-" + str(o.exc_name) + ("-rotated" if rotated else "")
        st.violation("product", cause, scn, ["product", exp], o.brief())
        return False
    if len(o.seq) != len(exp):
        st.violation("product", "wrong-length" + ("-rotated" if rotated else ""), scn, [len(exp), exp], [len(o.seq), o.seq])
        return False
    if not rm.same_circle(o.seq.upper(), exp.upper()):
        st.violation("product", "wrong-sequence" + ("-rotated" if rotated else ""), scn, exp, o.seq)
        return False
    if o.attrs["unused"]:
        st.violation("product", "spurious-unused-warning", scn, [], o.attrs["unused"])
        return False
    return True


def unit_three_prime(st, name, tier):
    """enzymes that leave 3' overhangs (usable through signature-typed parts only): chains of 1..3, every rotation of every
    participant, every argument order"""
    g = gen.geometry_of(gen.enzyme(name))
    forbid = [g.site]
    words = gen.overhang_words(g.ov, 4, 2)
    for k in (1, 2, 3):
        if k + 1 > len(words):
            continue            # (1-nt overhangs: only so many words that do not pair with each other)
        scn = dict(enz=name, k=k, ovs=words[: k + 1], three_prime=True, rot=[0] * (k + 1),
                   bodies=[gen.word(i, 3 + 5 * i, 2 + i, forbid) for i in range(k)], mbbs=[gen.word(i + 1, 9 + 3 * i, 3 + i, forbid) for i in range(k)],
                   fills=[[gen.word(0, 3 + i, g.off, forbid), gen.word(0, 17 + i, g.off, forbid)] for i in range(k)],
                   vbb=gen.word(1, 61, 4, forbid), vph=gen.word(0, 47, 3, forbid), vfill=[gen.word(0, 29, g.off, forbid), gen.word(0, 41, g.off, forbid)])
        vec, mods = asm.pieces_to_plasmids(scn)
        if any(rm.count_sites(p, g) != 2 for p in [vec] + mods):
            st.filtered += 1
            continue
        lens = [len(vec)] + [len(m) for m in mods]
        todo = [scn] + [dict(scn, perm=list(p)) for p in list(itertools.permutations(range(k)))[1:]]
        for which in range(k + 1):
            todo += [dict(scn, rot=[r if j == which else 0 for j in range(k + 1)]) for r in range(1, lens[which])]
        for s2 in todo:
            check(st, s2)
            st.scenario("product/three-prime", None)
            st.nontrivial += 1
            st.goal("three-prime-overhang-enzyme")
    st.sample(dict(enz=name, k=1, three_prime=True))


def run_unit(unit, st, tier):
    if unit[0] == "three-prime":
        return unit_three_prime(st, unit[1], tier)
    if unit[0] == "content":
        return unit_content(st, unit[1], tier)
    if unit[0] == "words":
        return unit_words(st, unit[1], tier)
    if unit[0] == "menu":
        return unit_menu(st, unit[1], tier)
    if unit[0] == "large":
        return unit_large(st, unit[1], tier)
    name, k, scheme, pj = unit[1]
    g = gen.geometry_of(gen.enzyme(name))
    base = asm.base_scenario(name, k, scheme=scheme, ovscheme=scheme, palindromic_junction=pj)
    if base is None:
        st.filtered += 1
        return
    ok, why = asm.well_formed(base)
    if not ok:
        st.filtered += 1
        st.extra["filtered:" + why.split()[0]] += 1
        return
    st.goal("every-enzyme:" + name)
    if k == 3:
        st.goal("k=3")
    if pj is not None:
        st.goal("palindromic-junction")

    def one(scn, nontrivial, outcome=None):
        ok = check(st, scn)
        if outcome is None:
            dev = []
            if any(scn.get("rot") or []):
                dev.append("rotated")
            if scn.get("perm") and scn["perm"] != sorted(scn["perm"]):
                dev.append("permuted")
            if scn.get("lower"):
                dev.append("lower-case")
            outcome = "{}/k={}/{}".format("product" if ok else "violation", k, "+".join(dev) or "canonical")
        st.scenario(outcome, None)
        if nontrivial:
            st.nontrivial += 1

    # bound 0
    one(base, k >= 2)
    st.sample(base)
    # the typed entities of the base scenario stay alive while its deviations are explored (parts are commonly kept around
    # and re-wrapped); nothing they have computed may leak into later wrappers of rotated or re-ordered copies
    asm.keep_alive(base)
    vec, mods = asm.pieces_to_plasmids(base)
    lens = [len(vec)] + [len(m) for m in mods]
    perms = list(itertools.permutations(range(k)))

    def rotations_of(scn, which, goals=True):
        vec2, mods2 = asm.pieces_to_plasmids(scn)
        n = len(vec2) if which == 0 else len(mods2[which - 1])
        for r in range(1, n):
            s2 = dict(scn, rot=[r if j == which else 0 for j in range(k + 1)])
            if goals:
                z, _ = origin_zone(scn, which, r)
                st.goal("origin-in-" + ("target" if z == "placeholder" and False else z))
            yield s2

    # bound 1: rotation of each plasmid in turn
    for which in range(k + 1):
        for s2 in rotations_of(base, which):
            one(s2, True)
    # bound 1: permutations
    for p in perms[1:]:
        st.goal("non-identity-permutation")
        one(dict(base, perm=list(p)), True)
    # bound 1: spelling -- each participant in lower case in turn, and all of them (sequences are sequences)
    for low in [[j] for j in range(k + 1)] + [list(range(k + 1))]:
        st.goal("lower-case-participant")
        one(dict(base, lower=low), True)
    # bound 2: spelling x rotation of one plasmid (the rotated plasmid in lower case; and everything in lower case)
    for which in range(k + 1):
        if tier == "quick" and (scheme != 0 or pj is not None):
            continue
        for s2 in rotations_of(base, which, goals=False):
            one(dict(s2, lower=[which]), True)
            one(dict(s2, lower=list(range(k + 1))), True)
    # bound 1: annotated participants (features of every unusual but legal shape); bound 2: annotated x rotation of one plasmid
    for decor in range(1, len(gen.ROUTES) + 1):
        # ... produced along every route (fresh; rotated back by the library; reverse-complemented twice; through GenBank text;
        # rotated, reverse-complemented, rotated): same plasmids, other internal spellings
        one(dict(base, decor=decor), True, outcome="product-or-violation/annotated")
        st.goal("annotated-participants")
        for which in range(k + 1):
            if decor > 1 and tier == "quick" and (which != 1 or scheme != 0 or pj is not None):
                continue
            for s2 in rotations_of(base, which, goals=False):
                if decor > 1 and tier == "quick":
                    # the other routes: origin inside the flanking structure, and every fourth rotation elsewhere
                    r_ = s2["rot"][which]
                    if r_ % 4 and origin_zone(base, which, r_)[0] not in ("site", "filler", "overhang"):
                        continue
                one(dict(s2, decor=decor), True, outcome="product-or-violation/annotated")
    # bound 1: region lengths (and bound 2 with the rotation of the plasmid holding the region)
    for reg in regions(k):
        kind = reg.rstrip("0123456789")
        for alt in REGION_ALTS[kind]:
            scn = asm.base_scenario(name, k, scheme=scheme, ovscheme=scheme, palindromic_junction=pj, lens={reg: alt})
            if scn is None:
                st.filtered += 1
                continue
            ok, why = asm.well_formed(scn)
            if not ok:
                st.filtered += 1
                continue
            ln = asm.region_len(alt, g)
            if kind == "body" and ln == 2:
                st.goal("min-body")
            if kind == "mbb" and ln == 0:
                st.goal("empty-backbone")
            if kind == "vph" and ln == 0:
                st.goal("empty-placeholder")
            one(scn, True)
            which = plasmid_of_region(reg, k)
            for s2 in rotations_of(scn, which, goals=False):
                one(s2, True)
            if tier == "thorough":
                for other in range(k + 1):
                    if other != which:
                        for s2 in rotations_of(scn, other, goals=False):
                            one(s2, True)
                for p in perms[1:]:
                    one(dict(scn, perm=list(p)), True)
    # bound 2: permutation x rotation of one plasmid
    for p in perms[1:]:
        for which in range(k + 1):
            if tier == "quick" and which not in (0, 1):
                continue
            for s2 in rotations_of(base, which, goals=False):
                one(dict(s2, perm=list(p)), True)
    # bound 2 (thorough): rotation x rotation over structure-window rotations
    if tier == "thorough":
        win = {}
        for which in range(k + 1):
            n = lens[which]
            ws = []
            for r in range(1, n):
                z, _ = origin_zone(base, which, r)
                if z in ("site", "filler", "overhang"):
                    ws.append(r)
            win[which] = ws
        for a in range(k + 1):
            for b in range(a + 1, k + 1):
                for ra in win[a]:
                    for rb in win[b]:
                        rot = [0] * (k + 1)
                        rot[a], rot[b] = ra, rb
                        one(dict(base, rot=rot), True)


def unit_content(st, arg, tier):
    """Content-exhaustive sub-space for 1- and 2-nt overhangs: every overhang assignment for which
    the model predicts a product x every body over {A,C,G,T}^L for the first module."""
    name, k, w0 = arg
    g = gen.geometry_of(gen.enzyme(name))
    L = bounds(tier)["content_exhaustive"]["body_len"] if k == 1 else 2
    words = ["".join(t) for t in itertools.product("ACGT", repeat=g.ov)]
    bodies = ["".join(t) for t in itertools.product("ACGT", repeat=L)]
    base = asm.base_scenario(name, k)
    if base is None:
        # 1-nt overhangs: build a k=2 chain by hand is still possible: starts A,C ; vector up G
        base = asm.base_scenario(name, 1)
        if base is None:
            st.filtered += 1
            return
        k = 1
    k2_bodies = ["AC", "GT", "CA", "TG"] if tier == "quick" else bodies
    for rest in itertools.product(words, repeat=k):
        ovs = (w0,) + rest
        # the reference decides whether this assignment yields a product
        mods = [(ovs[i], ovs[i + 1]) for i in range(k)]
        model = rm.assembly_outcome(ovs[k], ovs[0], mods)
        if model["kind"] != "product" or model["unused"] or model["chain"] != list(range(k)):
            st.filtered += 1
            continue
        for body in (bodies if k == 1 else k2_bodies):
            scn = dict(base, ovs=list(ovs), bodies=[body] + list(base["bodies"][1:]))
            vec, mods_s = asm.pieces_to_plasmids(scn)
            if any(rm.count_sites(p, g) != 2 for p in [vec] + mods_s):
                st.filtered += 1
                continue
            ok, why = asm.well_formed(scn)
            if not ok:
                st.filtered += 1
                continue
            check(st, scn)
            st.scenario("product", None)
            st.nontrivial += 1
            st.goal("content-exhaustive")
    st.sample(dict(base, note="content-exhaustive family"))


def unit_menu(st, name, tier):
    """awkward contents: each menu word as body of each module, as vector backbone, as module backbone and as placeholder (k = 2),
    at rotation 0 and with the plasmid holding it rotated to three places"""
    g = gen.geometry_of(gen.enzyme(name))
    base = asm.base_scenario(name, 2)
    if base is None:
        st.filtered += 1
        return
    o = base["ovs"]
    for where in ("body0", "body1", "vbb", "mbb0", "vph"):
        j = {"body0": 0, "body1": 1}.get(where)
        o5, o3 = (o[j], o[j + 1]) if j is not None else (o[2], o[0])
        words_ = list(gen.content_menu(g, o5, o3))
        if where in ("vbb", "mbb0"):
            # the backbones lie outside the structure: every IUPAC letter is legal there, in either case
            words_ += ["ACRYAC", "AKMBDHVSWA", "TTrykmTTbdhvswnAA", "ARRRRA"]    # (the two letters next to a vector's overhangs belong to its structure: nucleotides)
            st.goal("ambiguity-codes-in-a-backbone")
        for word in words_:
            scn = dict(base)
            if j is not None:
                scn["bodies"] = [word if i == j else b for i, b in enumerate(base["bodies"])]
            elif where == "vbb":
                scn["vbb"] = word
            elif where == "vph":
                scn["vph"] = word
            else:
                scn["mbbs"] = [word] + list(base["mbbs"][1:])
            vec, mods = asm.pieces_to_plasmids(scn)
            if set("".join([vec] + mods).upper()) - set("ACGT"):
                # ambiguity codes in a retained region: the ligation model is defined on the letters as they are
                pass
            if any(rm.count_sites(p, g) != 2 for p in [vec] + mods) or not asm.well_formed(scn)[0]:
                st.filtered += 1
                continue
            which = 0 if where in ("vbb", "vph") else (j + 1 if j is not None else 1)
            n = len(([vec] + mods)[which])
            for r in sorted({0, 1, n // 2, n - 1}):
                s2 = dict(scn, rot=[r if x == which else 0 for x in range(3)])
                check(st, s2)
                st.scenario("product", None)
                st.nontrivial += 1
                st.goal("awkward-content")
    st.sample(dict(base, note="content menu"))


def unit_large(st, name, tier):
    """sizes: long bodies / backbones / placeholders (up to several kb) and long chains (k up to 8 for 4-nt overhangs)"""
    g = gen.geometry_of(gen.enzyme(name))
    forbid = [g.site]
    base = asm.base_scenario(name, 2)
    sizes = [257, 1024, 3001] if tier == "quick" else [257, 1024, 3001, 10007]
    for where in ("body0", "vbb", "mbb1", "vph"):
        for size in sizes:
            w = gen.long_word(size, seed=size, forbid=forbid)
            scn = dict(base)
            if where == "body0":
                scn["bodies"] = [w, base["bodies"][1]]
            elif where == "vbb":
                scn["vbb"] = w
            elif where == "vph":
                scn["vph"] = w
            else:
                scn["mbbs"] = [base["mbbs"][0], w]
            vec, mods = asm.pieces_to_plasmids(scn)
            if any(rm.count_sites(p, g) != 2 for p in [vec] + mods) or not asm.well_formed(scn)[0]:
                st.filtered += 1
                continue
            which = {"body0": 1, "vbb": 0, "mbb1": 2, "vph": 0}[where]
            n = len(([vec] + mods)[which])
            for r in sorted({0, 1, 7, n // 3, n // 2, n - 5, n - 1}):
                check(st, dict(scn, rot=[r if x == which else 0 for x in range(3)]))
                st.scenario("product", None)
                st.nontrivial += 1
                st.goal("large-plasmid")
    # long chains
    words = gen.overhang_words(g.ov, 9, 2)
    for k in range(4, min(8, len(words) - 1) + 1):
        ovs = words[: k + 1]
        bodies = [gen.word(i, 3 + 5 * i, 3 + (i % 4), forbid) for i in range(k)]
        mbbs = [gen.word(i + 1, 9 + 3 * i, 2 + (i % 3), forbid) for i in range(k)]
        fills = [[gen.word(0, 3 + i, g.off, forbid), gen.word(0, 17 + i, g.off, forbid)] for i in range(k)]
        scn = dict(enz=name, k=k, ovs=ovs, bodies=bodies, mbbs=mbbs, fills=fills, vbb=base["vbb"], vph=base["vph"], vfill=base["vfill"],
                   rot=[0] * (k + 1), perm=list(range(k)))
        vec, mods = asm.pieces_to_plasmids(scn)
        if any(rm.count_sites(p, g) != 2 for p in [vec] + mods) or not asm.well_formed(scn)[0]:
            st.filtered += 1
            continue
        perms = [list(range(k)), list(reversed(range(k)))] + [list(range(i, k)) + list(range(i)) for i in range(1, k)] + \
                [[(i * 3) % k for i in range(k)] if k % 3 else list(range(1, k)) + [0]]
        for p in perms:
            if sorted(p) != list(range(k)):
                continue
            check(st, dict(scn, perm=p))
            st.scenario("product", None)
            st.nontrivial += 1
            st.goal("long-chain")
    st.sample(dict(base, note="large plasmids and long chains"))


def unit_words(st, arg, tier):
    """k = 1: every overhang word as the module's start (vector's downstream) and as its end (vector's upstream) overhang;
    thorough: every ordered pair of words.  The overhang-graph model decides which assignments chain."""
    name, c, nchunks = arg
    g = gen.geometry_of(gen.enzyme(name))
    base = asm.base_scenario(name, 1)
    words = ["".join(t) for t in itertools.product("ACGT", repeat=g.ov)]
    fixed0, fixed1 = base["ovs"]
    if tier == "quick":
        pairs = [(w, fixed1) for w in words] + [(fixed0, w) for w in words]
    else:
        pairs = [(a, b) for a in words for b in words]
    for (o0, o1) in pairs[c::nchunks]:
        model = rm.assembly_outcome(o1, o0, [(o0, o1)])
        if model["kind"] != "product":
            st.filtered += 1
            continue
        scn = dict(base, ovs=[o0, o1])
        vec, mods = asm.pieces_to_plasmids(scn)
        if any(rm.count_sites(p, g) != 2 for p in [vec] + mods) or not asm.well_formed(scn)[0]:
            st.filtered += 1
            continue
        check(st, scn)
        st.scenario("product", None)
        st.nontrivial += 1
        st.goal("every-overhang-word")
        if o0 == rm.revcomp(o0) or o1 == rm.revcomp(o1):
            st.goal("palindromic-junction")
    st.sample(dict(base, note="overhang word sweep"))


def extra_coverage(tier, st):
    enz = sorted(g.split(":", 1)[1] for g in st.goals if g.startswith("every-enzyme:"))
    return dict(enzymes_covered=enz, n_enzymes=len(enz), enzyme_menu=[n for n, _ in gen.enzymes()])


def replay(scn, sub, st):
    check(st, scn)
