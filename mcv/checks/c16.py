"""C16 -- DNA pattern search has exact IUPAC, circular and group-extraction semantics.  (E1)

Space: (i) the complete letter table 15 codes x 4 nucleotides x 2 cases, alone and embedded;
(ii) every pattern of <= K atoms over {A, C, N, R, N*, N*?, A*} with 0-2 non-nested capture groups
x every target over {A,C,G} of length 1..L x 5 target kinds x every (pos, endpos) in [0, n+1]^2;
(iii) the structure of every concrete kit class searched on its own instances at every rotation.
Oracle: refmodel.Matcher (backtracking matcher written without `re`).
"""
import itertools

from .. import gen, refmodel as rm
from Bio.Seq import Seq
from Bio.SeqRecord import SeqRecord
from moclo.record import CircularRecord
from moclo.regex import DNARegex

ID = "C16"
TITLE = "DNA pattern search semantics"
DESIGN_REF = "DESIGN.md section 4, C16"
RULE = ("every (pattern, target, kind, pos, endpos) tuple of the stated space is enumerated exactly once; "
        "a tuple is non-trivial when the reference finds a match that has a capture group or a starred atom "
        "or runs past the end of the target; letter-table and kit-structure cases are counted as non-trivial "
        "when they match")
ASSUMPTIONS = [
    "Python's re module implements the regular expressions DNARegex transcribes to (trusted base)",
    "pattern letters are upper case (DESIGN 5.4); search ranges have pos >= 0 (DESIGN 5.5)",
    "targets of the pattern space are over {A,C,G}; IUPAC letter semantics are covered by the complete letter table",
]
ATOMS = ["A", "C", "N", "R", "N*", "N*?", "A*"]
KINDS = ["seq-linear", "seq-circular", "rec-linear", "rec-circular", "circularrecord",
         # the same text in the other containers a target may come in (never on the full range grid)
         "rec-mutable-circular", "circularrecord-mutable", "circularrecord-annotated", "rec-annotated-linear",
         "circularrecord-other-DNA", "rec-genomic-DNA-linear"]


ALL5 = ["seq-linear", "seq-circular", "rec-linear", "rec-circular", "circularrecord"]
BANDS = {
    # atoms lo..hi, max groups, max target length, kinds searched over the full (pos,endpos) grid, grid up to length
    "quick": [
        dict(atoms=(1, 2), groups=2, tlen=4, grid_kinds=["seq-linear", "seq-circular", "circularrecord"], grid_len=3, chunks=40),
        dict(atoms=(3, 3), groups=2, tlen=3, grid_kinds=["circularrecord"], grid_len=3, chunks=120),
    ],
    "thorough": [
        dict(atoms=(1, 3), groups=2, tlen=5, grid_kinds=ALL5, grid_len=4, chunks=480),
        dict(atoms=(4, 4), groups=1, tlen=3, grid_kinds=["seq-linear", "circularrecord"], grid_len=3, chunks=160),
    ],
}


def bounds(tier):
    return dict(bands=BANDS[tier], target_alphabet="ACG", atoms=ATOMS, target_kinds=KINDS,
                groups="non-nested capture groups, possibly empty or around a starred atom",
                ranges="every (pos,endpos) in [0,n+1]^2 for the grid kinds up to the grid length; "
                       "(0,None),(1,None),(0,n-1),(1,n) for the remaining kinds and lengths",
                repeats="10 literal heads (incl. self-overlapping ones and the kit sites) x 8 continuations on every target over the head's letters + 1 up to length 6-7 (7-9)",
                codes_in_context="each of the 15 codes in 8 pattern shapes x all ACGT targets (both cases) up to length 3 (4)",
                long_targets="4 kit-style structures on targets of 300..1500 (6000) letters: homopolymer, dinucleotide repeat, aperiodic; 6 rotations",
                kit_structures="all concrete kit classes x 2 fills x 2 star lengths x all rotations")


def goals(tier):
    return ["letter-table-complete", "group-crosses-origin", "group-wholly-past-end", "lazy-star", "greedy-star",
            "linear-no-wrap-candidate", "no-match", "kit-structure-wraps", "range-excludes-first-match", "codes-in-context", "long-target", "self-overlapping-literal-head"]


# ---------------------------------------------------------------------------------------------

def patterns(lo, hi, max_groups=2):
    """All patterns, simplest first: by number of atoms, then number of groups."""
    out = []
    for m in range(lo, hi + 1):
        for atoms in itertools.product(ATOMS, repeat=m):
            ivs = [(i, j) for i in range(m + 1) for j in range(i, m + 1)]
            groupings = [()]
            groupings += [(iv,) for iv in ivs]
            if max_groups >= 2:
                groupings += [(a, b) for a in ivs for b in ivs if a[1] <= b[0] and not (a == b)]
            for grp in groupings:
                out.append(render(atoms, grp))
    # distinct texts only (two empty groups at the same place render identically to ... keep unique)
    seen = set()
    uniq = []
    for p in out:
        if p not in seen:
            seen.add(p)
            uniq.append(p)
    return uniq


def render(atoms, groups):
    opens = {}
    closes = {}
    for (i, j) in groups:
        opens[i] = opens.get(i, 0) + 1
        closes[j] = closes.get(j, 0) + 1
    s = []
    # at a boundary k: first close groups ending at k (that are non-empty), then open/close empties, then open
    empties = {}
    for (i, j) in groups:
        if i == j:
            empties[i] = empties.get(i, 0) + 1
    for k in range(len(atoms) + 1):
        nclose = closes.get(k, 0) - empties.get(k, 0)
        nopen = opens.get(k, 0) - empties.get(k, 0)
        s.append(")" * nclose)
        s.append("()" * empties.get(k, 0))
        s.append("(" * nopen)
        if k < len(atoms):
            s.append(atoms[k])
    return "".join(s)


def targets(maxlen):
    for n in range(1, maxlen + 1):
        for t in itertools.product("ACG", repeat=n):
            yield "".join(t)


def make_target(kind, s):
    if kind == "seq-linear":
        return Seq(s), dict(linear=True), False
    if kind == "seq-circular":
        return Seq(s), dict(linear=False), True
    if kind == "rec-linear":
        return SeqRecord(Seq(s), id="t"), dict(linear=True), False
    if kind == "rec-circular":
        return SeqRecord(Seq(s), id="t"), dict(linear=False), True
    if kind == "circularrecord":
        return CircularRecord(Seq(s), id="t"), dict(), True
    raise ValueError(kind)


def make_targets(s):
    seq = Seq(s)
    rec = SeqRecord(seq, id="t")
    from Bio.Seq import MutableSeq
    n = len(s)
    ann = SeqRecord(seq, id="t", features=gen.decorations(n), letter_annotations={"idx": list(range(n))}, annotations={"topology": "linear"})
    return {"seq-linear": (seq, dict(linear=True), False), "seq-circular": (seq, dict(linear=False), True),
            "rec-linear": (rec, dict(linear=True), False), "rec-circular": (rec, dict(linear=False), True),
            "circularrecord": (CircularRecord(rec), dict(), True),
            "rec-mutable-circular": (SeqRecord(MutableSeq(s), id="t"), dict(linear=False), True),
            "circularrecord-mutable": (CircularRecord(MutableSeq(s), id="t"), dict(), True),
            "circularrecord-annotated": (gen.contained(s, "annotated", "t"), dict(), True),
            "rec-annotated-linear": (ann, dict(), False),
            "circularrecord-other-DNA": (CircularRecord(seq, id="t", annotations={"topology": "circular", "molecule_type": "other DNA", "comment": ["l1", "l2"]}), dict(), True),
            "rec-genomic-DNA-linear": (SeqRecord(seq, id="t", annotations={"molecule_type": "genomic DNA", "data_file_division": "SYN"}), dict(), False)}


def text_of(x):
    if isinstance(x, SeqRecord):
        return str(x.seq)
    return str(x)


def compare(st, sub, scn, m, ref, n):
    """m: SeqMatch or None; ref: reference dict or None. Records violations; returns True if equal."""
    if isinstance(scn, tuple):
        scn = dict(pattern=scn[0], target=scn[1], kind=scn[2], pos=scn[3], endpos=scn[4])
    if (m is None) != (ref is None):
        st.violation(sub, "match-vs-none", scn, None if ref is None else ref["spans"], None if m is None else m.span(0))
        return False
    if m is None:
        return True
    ok = True
    if m.start() != ref["start"]:
        st.violation(sub, "start", scn, ref["start"], m.start())
        ok = False
    if m.end() != ref["end"]:
        st.violation(sub, "end", scn, ref["end"], m.end())
        ok = False
    if ref["end"] - ref["start"] > n:
        raise AssertionError("reference matched more than one turn")
    for gi, (a, b) in enumerate(ref["spans"]):
        sp = m.span(gi)
        if tuple(sp) != (a, b):
            st.violation(sub, "span", scn, [gi, a, b], [gi] + list(sp))
            ok = False
            continue
        try:
            got = text_of(m.group(gi))
        except Exception as e:  # group extraction must not fail
            st.violation(sub, "group-raises", scn, ref["groups"][gi], "{}: {}".format(type(e).__name__, e))
            ok = False
            continue
        if got != ref["groups"][gi]:
            if a < n < b:
                cause = "group-text-crosses-origin"
            elif a >= n:
                cause = "group-text-past-end"
            elif b == n:
                cause = "group-text-ends-at-origin"
            else:
                cause = "group-text"
            st.violation(sub, cause, scn, [gi, ref["groups"][gi]], [gi, got])
            ok = False
    return ok


def ref_by_start(matcher, s, circular):
    """reference result for every start position i (None when no match at i)."""
    n = len(s)
    text = (s + s) if circular else s
    up = text.upper()
    res = []
    for i in range(n):
        r = matcher.match_at(up, i, min(len(text), i + n))
        if r is None:
            res.append(None)
        else:
            end, spans = r
            res.append(dict(start=i, end=end, spans=spans, groups=[text[a:b] for a, b in spans]))
    return res


def nontrivial(pattern, ref, n):
    return ref is not None and ("(" in pattern or "*" in pattern or ref["end"] > n)


# ---------------------------------------------------------------------------------------------

def units(tier):
    us = [("letters", None)]
    for bi, band in enumerate(BANDS[tier]):
        for c in range(band["chunks"]):
            us.append(("patterns", (bi, c)))
    cls = gen.kit_classes()
    for i in range(0, len(cls), 6):
        us.append(("kit", [c.__name__ for c in cls[i:i + 6]]))
    for code in sorted(rm.IUPAC):
        us.append(("context", code))
    for h in range(len(REPEAT_HEADS)):
        us.append(("repeats", h))
    us.append(("long", None))
    return us


_PATS = {}


def band_patterns(tier, bi):
    key = (tier, bi)
    if key not in _PATS:
        band = BANDS[tier][bi]
        _PATS[key] = patterns(band["atoms"][0], band["atoms"][1], band["groups"])
    return _PATS[key]


def run_unit(unit, st, tier):
    kind, arg = unit
    if kind == "letters":
        unit_letters(st)
    elif kind == "patterns":
        bi, c = arg
        band = BANDS[tier][bi]
        mine = band_patterns(tier, bi)[c::band["chunks"]]
        tg = list(targets(band["tlen"]))
        for p in mine:
            run_pattern(st, p, tg, band)
    elif kind == "kit":
        for name in arg:
            unit_kit(st, name)
    elif kind == "context":
        unit_context(st, arg, tier)
    elif kind == "repeats":
        unit_repeats(st, arg, tier)
    elif kind == "long":
        unit_long(st, tier)


def unit_letters(st):
    count = 0
    for code, nts in sorted(rm.IUPAC.items()):
        rx = DNARegex(code)
        rx3 = DNARegex("A" + code + "C")
        for nt in "ACGT":
            for case in (nt, nt.lower()):
                expect = nt in nts
                for emb in (False, True):
                    tgt = ("a" + case + "C") if emb else case
                    scn = dict(pattern=("A" + code + "C") if emb else code, target=tgt, kind="seq-linear", pos=0, endpos=None, code=code)
                    m = (rx3 if emb else rx).search(Seq(tgt))
                    got = m is not None
                    st.scenario("letter-match" if expect else "letter-nomatch", None)
                    if expect:
                        st.nontrivial += 1
                    if got != expect:
                        st.violation("letters", "letter-table-{}".format(code), scn, expect, got)
                    elif got and text_of(m.group(0)) != tgt:
                        st.violation("letters", "letter-group-text", scn, tgt, text_of(m.group(0)))
                    count += 1
                    if count in (7, 100):
                        st.sample(scn)
    if count == 15 * 4 * 2 * 2:
        st.goal("letter-table-complete")


def run_pattern(st, p, tg, band):
    rx = DNARegex(p)
    mt = rm.Matcher(p)
    full_kinds = band["grid_kinds"]
    for s in tg:
        n = len(s)
        refs = {False: ref_by_start(mt, s, False), True: ref_by_start(mt, s, True)}
        if "*?" in p and any(refs[True]):
            st.goal("lazy-star")
        if ("N*" in p.replace("N*?", "") or "A*" in p) and any(refs[True]):
            st.goal("greedy-star")
        # would a circular reading match where a linear one does not?
        if any(refs[True]) and not any(refs[False]):
            st.goal("linear-no-wrap-candidate")
        shared = make_targets(s)
        for kind in KINDS:
            # all five targets of one text share ONE Seq object and are searched one after the other, linear and circular
            # readings alternating: an answer must not depend on what was searched just before
            target, kw, circ = shared[kind]
            rs = refs[circ]
            st.states += 1
            if kind in full_kinds and n <= band["grid_len"]:
                ranges = [(a, e) for a in range(0, n + 2) for e in range(0, n + 2)]
            else:
                ranges = [(0, None), (1, None), (0, n - 1), (1, n)]
            n_none = n_match = n_nt = 0
            g_excl = g_cross = g_past = 0
            pnt = ("(" in p or "*" in p)
            for (pos, endpos) in ranges:
                hi = n if endpos is None else min(n, endpos)
                ref = None
                for i in range(pos, hi):
                    if rs[i] is not None:
                        ref = rs[i]
                        break
                try:
                    if endpos is None:
                        m = rx.search(target, pos, **kw) if pos else rx.search(target, **kw)
                    else:
                        m = rx.search(target, pos, endpos, **kw)
                except Exception as e:
                    st.violation("patterns", "search-raises-" + type(e).__name__, dict(pattern=p, target=s, kind=kind, pos=pos, endpos=endpos),
                                 "a match or None", "{}: {}".format(type(e).__name__, str(e)[:120]))
                    continue
                if ref is None:
                    n_none += 1
                    if m is not None:
                        compare(st, "patterns", dict(pattern=p, target=s, kind=kind, pos=pos, endpos=endpos), m, ref, n)
                    continue
                n_match += 1
                compare(st, "patterns", (p, s, kind, pos, endpos), m, ref, n)
                if pnt or ref["end"] > n:
                    n_nt += 1
                if pos > 0 and g_excl == 0 and any(r is not None for r in rs[:pos]):
                    g_excl += 1
                for (a, e2) in ref["spans"][1:]:
                    if a < n < e2:
                        g_cross += 1
                    elif a >= n and e2 > a:
                        g_past += 1
            k = n_none + n_match
            st.evaluations += k
            st.traces += k
            st.transitions += 2 * k
            st.states += k
            st.nontrivial += n_nt
            if n_none:
                st.outcomes["none"] += n_none
                st.goals["no-match"] += n_none
            if n_match:
                st.outcomes["match"] += n_match
            if g_excl:
                st.goals["range-excludes-first-match"] += g_excl
            if g_cross:
                st.goals["group-crosses-origin"] += g_cross
            if g_past:
                st.goals["group-wholly-past-end"] += g_past
        if len(st.samples) < 2 and len(s) == 3 and "(" in p:
            st.sample(dict(pattern=p, target=s, kind="circularrecord", pos=0, endpos=None))


def unit_context(st, code, tier):
    """every IUPAC code next to wildcards and inside groups, on every target over the full ACGT alphabet (both cases) up to
    length 3 (4 in thorough), linear and circular, default range and every start"""
    pats = [code, "N*" + code, code + "N*", "(" + code + ")N*?" + code, code + "*", "(N*?)" + code + "(N*)", "A" + code + "?T", "(" + code + code + ")"]
    maxlen = 3 if tier == "quick" else 4
    tg = []
    for n in range(1, maxlen + 1):
        for t in itertools.product("ACGT", repeat=n):
            tg.append("".join(t))
    tg += [t.lower() for t in tg if len(t) <= 2] + ["aCgT", "TtTt", "gGcC"]
    band = dict(grid_kinds=["seq-linear", "circularrecord"], grid_len=2)
    for p in pats:
        run_pattern(st, p, tg, band)
    st.goal("codes-in-context")
    st.sample(dict(pattern=pats[3], target="ACGT", kind="circularrecord", pos=0, endpos=None))


REPEAT_HEADS = ["AA", "AAA", "CC", "ACA", "ACAC", "AACAA", "CGTCTC", "GAGACG", "GGTCTC", "GAAGAC"]
REPEAT_TAILS = ["C", "G", "R", "(NN)", "N*G", "B", "(N*?)C", "NC"]


def unit_repeats(st, h, tier):
    """literal heads (some of which overlap themselves) followed by a continuation that can fail, on EVERY target over the
    head's letters plus one more, so that overlapping candidate starts are all exercised"""
    head = REPEAT_HEADS[h]
    letters = sorted(set(head) | {"G" if "G" not in head else "T"})
    maxlen = (7 if len(letters) <= 2 else 6) if tier == "quick" else (9 if len(letters) <= 2 else 7)
    if len(head) >= 5:
        # long heads: targets are built from the head's own overlaps instead of all strings
        tg = set()
        for k in range(1, len(head)):
            if head[:k] == head[-k:] or True:
                for tail in ("", "A", "C", "G", "T", "AC", "GT"):
                    for pre in ("", "A", "T", head[:k]):
                        tg.add(pre + head[:-k] + head + tail)
                        tg.add(pre + head + head[k:] + tail)
        tg = sorted(t for t in tg if len(t) <= 22)
    else:
        tg = []
        for n in range(1, maxlen + 1):
            for t in itertools.product(letters, repeat=n):
                tg.append("".join(t))
    band = dict(grid_kinds=[], grid_len=0)
    for tail in REPEAT_TAILS:
        run_pattern(st, head + tail, tg, band)
    st.goal("self-overlapping-literal-head")
    st.sample(dict(pattern=head + REPEAT_TAILS[0], target=tg[-1], kind="seq-linear", pos=0, endpos=None))


def unit_long(st, tier):
    """sizes: module structures searched on long targets (homopolymer, repeats, aperiodic; 300 .. 6000 letters) at a handful
    of rotations -- the backtracking reference matcher is linear here because the literals anchor the match"""
    pats = ["GGTCTCN(NNNN)(NN*N)(NNNN)NGAGACC", "N(NNNN)(NGAGACCN*GGTCTCN)(NNNN)N", "CGTCTCN(NNGG)(TCTCNNNNNN*?NNNNNGA)(GACC)NGAGACG",
            "GAAGACNN(NNNN)(NN*?N)(NNNN)NNGTCTTC"]
    sizes = [300, 1500] if tier == "quick" else [300, 1500, 6000]
    for p in pats:
        rx = DNARegex(p)
        mt = rm.Matcher(p)
        inst, _ = gen.instantiate(p, fill_scheme=0, star_len=4)
        for size in sizes:
            for filler in ("A" * size, "AT" * (size // 2), gen.long_word(size, seed=size, forbid=["GGTCTC", "CGTCTC", "GAAGAC"])):
                # filler goes both inside the starred region (by re-instantiating) and outside as backbone
                big, _ = gen.instantiate(p, fill_scheme=1, star_text=filler)
                for s in (inst + filler, big + "ACGTAC"):
                    n = len(s)
                    for r in sorted({0, 1, 5, n // 2, n - 7, n - 1}):
                        t = rm.rot_right(s, r)
                        ref = mt.search(t, True)
                        m = rx.search(CircularRecord(Seq(t), id="L"))
                        compare(st, "long", dict(pattern=p, target=t if n < 400 else None, kind="circularrecord", pos=0, endpos=None, size=n, rotation=r,
                                                 filler=filler[:8], build="inst+filler" if s.startswith(inst) else "filler-in-star"), m, ref, n)
                        st.scenario("long-match" if ref else "long-none", None)
                        st.nontrivial += 1
                        st.goal("long-target")
    st.sample(dict(pattern=pats[0], kind="circularrecord", size=sizes[-1], rotation=5))


def kit_instances(cls):
    """(text, label) instances of the class structure: 2 fills, 2 star lengths."""
    struct = cls.structure()
    forbid = []
    for c in ("GGTCTC", "CGTCTC", "GAAGAC"):
        forbid.append(c)
    out = []
    for fill in (0, 1):
        for sl in (3, 8):
            body, _ = gen.instantiate(struct, fill_scheme=fill, star_len=sl, forbid=forbid)
            bb = gen.word(fill, 50, 5 + fill, forbid)
            out.append((body + bb, "fill{}-star{}".format(fill, sl)))
    return out


def unit_kit(st, name):
    cls = gen.class_by_name(name)
    struct = cls.structure()
    rx = DNARegex(struct)
    mt = rm.Matcher(struct)
    for text, label in kit_instances(cls):
        n = len(text)
        for r in range(n):
            s = rm.rot_right(text, r)
            ref = mt.search(s, True)
            m = rx.search(CircularRecord(Seq(s), id="k"))
            scn = dict(pattern=struct, target=s, kind="circularrecord", pos=0, endpos=None, cls=name, rotation=r)
            compare(st, "kit", scn, m, ref, n)
            st.scenario("kit-match" if ref else "kit-none", None)
            if ref is not None:
                st.nontrivial += 1
                if ref["end"] > n:
                    st.goal("kit-structure-wraps")
        st.sample(dict(pattern=struct, target=text, kind="circularrecord", pos=0, endpos=None, cls=name, rotation=0))


def replay(scn, sub, st):
    if sub == "long":
        unit_long(st, "quick")
        return
    p, s, kind = scn["pattern"], scn["target"], scn["kind"]
    rx = DNARegex(p)
    mt = rm.Matcher(p)
    target, kw, circ = make_target(kind, s)
    n = len(s)
    pos, endpos = scn.get("pos", 0), scn.get("endpos")
    ref = mt.search(s, circ, pos, endpos)
    if sub == "letters":
        m = rx.search(target)
        expect = ref is not None
        if (m is not None) != expect:
            st.violation(sub, "letter-table-{}".format(scn.get("code", p)), scn, expect, m is not None)
        return
    if endpos is None:
        m = rx.search(target, pos, **kw) if pos else rx.search(target, **kw)
    else:
        m = rx.search(target, pos, endpos, **kw)
    compare(st, sub, scn, m, ref, n)
