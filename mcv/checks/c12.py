"""C12 -- Strand symmetry: reverse-complemented inputs give the reverse complement.  (E1)

(a) typing: generated modules and vectors over every enzyme geometry at all rotations, reverse
complemented through CircularRecord.reverse_complement() and on the plain string;
(b) assembly: C01's base scenarios (k = 1..3) with every participant reverse complemented, at rotation 0
and with one participant rotated over all n rotations;
(c) registry plasmids with exactly two sites, typed by the signature-free class of their kit and kind.
"""
from .. import asm, gen, refmodel as rm, regs
from ..engine import HarnessError
from Bio.Seq import Seq
from moclo.record import CircularRecord
from moclo.core import modules as _modules, vectors as _vectors

ID = "C12"
TITLE = "strand symmetry"
RULE = ("one scenario per (record, rotation, way of reverse complementing) resp. per assembly; non-trivial when the forward "
        "record is accepted; distinct by construction")
ASSUMPTIONS = [
    "records carry exactly the two sites of the formal definition (decided by string search)",
    "generic = classes using the default module/vector structure of their cutter",
]


def bounds(tier):
    return dict(positions="default lengths: the statement on positions (index track on a fully annotated record) at all n rotations",
                typing="all enzyme geometries x {module, vector} x default + boundary lengths x all n rotations x {method, string}",
                assembly="all enzyme geometries x k in 1..3 x schemes {0,1}; rotation of one participant: " + ("vector and first module" if tier == "quick" else "each participant"),
                ambiguity="BsaI, BbsI, BspQI, FokI, BccI: each of the 11 ambiguity codes (both cases) at one position of each region of module and vector",
                registry="all registry plasmids with exactly two cutter sites, signature-free class, " + ("rotation 0 and 4 window rotations" if tier == "quick" else "structure window"))


def goals(tier):
    return ["module-typing", "vector-typing", "assembly-k3", "assembly-rotated", "registry-typing", "palindromic-overhang", "rejected-both-strands", "ambiguity-code-in-record", "positions-of-the-reverse-complemented-target", "ambiguity-code-in-a-junction-overhang"]


def typed(cls, rec):
    e = cls(rec)
    if not e.is_valid():
        return (False,)
    ovs, ove, t = str(e.overhang_start()), str(e.overhang_end()), str(e.target_sequence().seq)
    return (True, ovs, ove, t)


def expected_rc(obs):
    """what the reverse-complemented record must report, from the forward observation"""
    if obs[0] is not True:
        return (False,)
    ovs, ove, t = obs[1], obs[2], obs[3]
    body = t[len(ovs):]
    return (True, rm.revcomp(ove), rm.revcomp(ovs), rm.revcomp(ove) + rm.revcomp(body))


def check_typing(st, fam, cls, s, rots, scn_base, ways=("method", "string")):
    n = len(s)
    for r in rots:
        sr = rm.rot_right(s, r)
        rec = CircularRecord(Seq(sr), id="f")
        try:
            alive = cls(rec)          # the forward wrapper stays alive (and typed) while the reverse complement is typed
            alive.is_valid()
            fwd = typed(cls, rec)
        except Exception as e:
            st.violation(fam, "forward-raises-" + type(e).__name__, dict(scn_base, rotation=r), "values", str(e)[:100])
            continue
        exp = expected_rc(fwd)
        if fwd[0] is True and scn_base.get("positions"):
            check_positions(st, fam, cls, sr, fwd, dict(scn_base, rotation=r, way="positions"))
        for way in ways:
            scn = dict(scn_base, rotation=r, way=way)
            try:
                rrec = rec.reverse_complement() if way == "method" else CircularRecord(Seq(rm.revcomp(sr)), id="r")
                got = typed(cls, rrec)
            except Exception as e:
                st.violation(fam, "reverse-raises-" + type(e).__name__, scn, exp, str(e)[:100])
                continue
            st.scenario("accepted" if fwd[0] is True else "rejected", None, calls=2)
            if fwd[0] is True:
                st.nontrivial += 1
                if rm.revcomp(fwd[1]) == fwd[1] or rm.revcomp(fwd[2]) == fwd[2]:
                    st.goal("palindromic-overhang")
            else:
                st.goal("rejected-both-strands")
            if got != exp:
                if got[0] != exp[0]:
                    cause = "verdict-differs-between-strands"
                elif got[1:3] != exp[1:3]:
                    cause = "overhangs-not-exchanged-and-reverse-complemented"
                else:
                    cause = "target-body-not-reverse-complemented"
                st.violation(fam, cause, scn, exp, got)


def check_positions(st, fam, cls, sr, fwd, scn):
    """The same statement on positions instead of letters: the record carries a per-letter index track (and features of every
    flavour); the target of the reverse-complemented record must hold exactly the nucleotides the statement names, reversed."""
    n = len(sr)
    rec = gen.contained(sr, "annotated", "f")
    try:
        e = cls(rec)
        if not e.is_valid():
            st.violation(fam, "annotated-record-rejected", scn, "valid", "invalid")
            return
        ft = e.target_sequence()
        fidx = list(ft.letter_annotations.get("idx", []))
        r = cls(rec.reverse_complement())
        if not r.is_valid():
            st.violation(fam, "reverse-complement-of-annotated-record-rejected", scn, "valid", "invalid")
            return
        rt = r.target_sequence()
        ridx = list(rt.letter_annotations.get("idx", []))
    except Exception as ex:
        st.violation(fam, "annotated-record-raises-" + type(ex).__name__, scn, "values", str(ex)[:120])
        return
    st.scenario("positions", None, nodes=0, calls=4)
    st.nontrivial += 1
    st.goal("positions-of-the-reverse-complemented-target")
    ovs, ove, t = fwd[1], fwd[2], fwd[3]
    if len(fidx) != len(t) or str(ft.seq).upper() != t.upper():
        st.violation(fam, "annotated-record-reports-another-target", scn, t, [str(ft.seq), fidx])
        return
    ove_pos = [(fidx[-1] + 1 + i) % n for i in range(len(ove))]
    exp = ove_pos[::-1] + fidx[len(ovs):][::-1]
    if ridx != exp:
        st.violation(fam, "reverse-complemented-target-holds-other-nucleotides", scn, exp, ridx)


def rc_graph_ok(scn):
    """does the overhang-graph model also predict the full chain for the reverse-complemented inputs?"""
    o = scn["ovs"]
    k = scn["k"]
    mods = [(rm.revcomp(o[i + 1]), rm.revcomp(o[i])) for i in range(k)]
    m = rm.assembly_outcome(rm.revcomp(o[0]), rm.revcomp(o[k]), mods)
    return m["kind"] == "product" and not m["unused"]


def check_assembly(st, scn):
    if not rc_graph_ok(scn):
        st.filtered += 1
        return
    fwd = asm.assemble_scenario(scn)
    rscn = dict(scn, strand="rc")
    rev = asm.assemble_scenario(rscn)
    st.scenario("assembly", None, calls=2)
    st.nontrivial += 1
    if fwd.kind != "product":
        st.violation("assembly", "forward-assembly-fails", scn, "product", fwd.brief())
        return
    if rev.kind != "product":
        st.violation("assembly", "reverse-complemented-assembly-fails-" + str(rev.exc_name), rscn, "product", rev.brief())
        return
    if not rm.same_circle(rev.seq.upper(), rm.revcomp(fwd.seq).upper()):
        st.violation("assembly", "product-of-reverse-complements-is-not-the-reverse-complement", rscn, rm.revcomp(fwd.seq), rev.seq)
    # and through the method on live records
    vec, mods = asm.plasmids(scn)
    v, ms = asm.entities(scn, vec, mods)
    M, V = gen.generic_classes(scn["enz"])
    v2 = V(v.record.reverse_complement(id=True, name=True))
    ms2 = [M(m.record.reverse_complement(id=True, name=True)) for m in ms]
    o = asm.run_assemble(v2, ms2)
    if o.kind != "product" or not rm.same_circle(o.seq.upper(), rm.revcomp(fwd.seq).upper()):
        st.violation("assembly", "method-reverse-complemented-assembly-differs", rscn, rm.revcomp(fwd.seq), o.brief())


def units(tier):
    us = [("generic", name) for name, _ in gen.enzymes()] + [("degenerate", name) for name, _ in gen.degenerate_enzymes()]
    rows = regs.table()
    for i in range(0, len(rows), 12):
        us.append(("registry", (i, min(len(rows), i + 12))))
    return us


def signature_free_class(cls):
    """first class in the MRO that uses the default module/vector structure of its cutter"""
    for c in cls.__mro__:
        if c in (object,) or getattr(c, "cutter", NotImplemented) is NotImplemented:
            continue
        if issubclass(c, _modules.AbstractModule) and "structure" not in c.__dict__ and c.structure() == _modules.AbstractModule.structure.__func__(c):
            return c
        if issubclass(c, _vectors.AbstractVector) and "structure" not in c.__dict__ and c.structure() == _vectors.AbstractVector.structure.__func__(c):
            return c
    return None


def run_unit(unit, st, tier):
    kind, arg = unit
    if kind == "degenerate":
        M, V = gen.generic_classes(arg)
        gen.prime([M, V])
        g = gen.geometry_of(gen.enzyme(arg))
        for k, near, w, s in gen.degenerate_records(arg):
            if rm.count_sites(s, g) != 2:
                st.filtered += 1
                continue
            cls = M if k == "module" else V
            check_typing(st, "typing", cls, s, range(len(s)), dict(family="typing", enz=arg, kind=k, seq=s))
        st.sample(dict(family="typing", enz=arg, kind="module", rotation=1, way="string", note="degenerate site"))
        return
    if kind == "generic":
        enz = arg
        M, V = gen.generic_classes(enz)
        gen.prime([M, V])
        for lens in (None, {"body0": 2}, {"mbb0": 0}, {"vbb": 2}, {"vph": 0}):
            scn = asm.base_scenario(enz, 1, lens=lens, palindromic_junction=None)
            if scn is None or not asm.well_formed(scn)[0]:
                st.filtered += 1
                continue
            vec, mods = asm.pieces_to_plasmids(scn)
            check_typing(st, "typing", M, mods[0], range(len(mods[0])), dict(family="typing", enz=enz, kind="module", seq=mods[0], positions=True))
            check_typing(st, "typing", V, vec, range(len(vec)), dict(family="typing", enz=enz, kind="vector", seq=vec, positions=True))
            st.goal("module-typing")
            st.goal("vector-typing")
            if lens is None and enz in ("BsaI", "BbsI", "BspQI", "FokI", "BccI"):
                # records spelled with IUPAC ambiguity codes: one letter of each region replaced by each code, both cases;
                # whatever the verdict is, it has to be the same on both strands
                g1 = gen.geometry_of(gen.enzyme(enz))
                L1 = len(g1.site)
                for cls_, s_, kind_, spots in ((M, mods[0], "module", [L1, L1 + g1.off, L1 + g1.off + g1.ov, len(mods[0]) - 1]),
                                               (V, vec, "vector", [0, g1.ov, g1.ov + len(scn["vbb"]) + g1.ov + g1.off + L1 + 1, len(vec) - 1])):
                    for pos in spots:
                        if pos >= len(s_):
                            continue
                        for code in "RYSWKMBDHVN" + "ryswkmbdhvn":
                            s2 = s_[:pos] + code + s_[pos + 1:]
                            check_typing(st, "ambiguity", cls_, s2, [0, 3], dict(family="typing", enz=enz, kind=kind_, seq=s2, code=code, pos=pos), ways=("string", "method"))
                            st.goal("ambiguity-code-in-record")
            if lens is None:
                # exactly two sites, but both in the same orientation: not a module, on either strand
                g0 = gen.geometry_of(gen.enzyme(enz))
                tandem = mods[0].replace(g0.rsite, g0.site, 1) if mods[0].count(g0.rsite) == 1 else None
                if tandem and rm.count_sites(tandem, g0) == 2:
                    check_typing(st, "typing", M, tandem, range(0, len(tandem), 3), dict(family="typing", enz=enz, kind="module", seq=tandem))
        g = gen.geometry_of(gen.enzyme(enz))
        for k in (1, 2, 3):
            for scheme in (0, 1):
                for pj in ([None, 0] if g.ov % 2 == 0 and scheme == 0 else [None]):
                    base = asm.base_scenario(enz, k, scheme=scheme, ovscheme=scheme, palindromic_junction=pj)
                    if base is None or not asm.well_formed(base)[0]:
                        st.filtered += 1
                        continue
                    check_assembly(st, base)
                    if k == 3:
                        st.goal("assembly-k3")
                    if scheme == 0 and pj is None and g.ov >= 2:
                        # the ambiguity code N inside ONE junction overhang (each junction in turn, incl. the closing one): both
                        # copies of the overhang carry it, so the plasmids still ligate -- on either strand
                        for j in range(k + 1):
                            w = base["ovs"][j]
                            wn = w[:1] + "N" + w[2:]
                            nb = dict(base, ovs=[wn if i == j else x for i, x in enumerate(base["ovs"])])
                            if asm.well_formed(nb)[0]:
                                check_assembly(st, nb)
                                st.goal("ambiguity-code-in-a-junction-overhang")
                    vec, mods = asm.pieces_to_plasmids(base)
                    lens = [len(vec)] + [len(m) for m in mods]
                    which_list = range(k + 1) if tier == "thorough" else (0, 1)
                    if scheme == 0 and pj is None:
                        for which in which_list:
                            for r in range(1, lens[which]):
                                check_assembly(st, dict(base, rot=[r if j == which else 0 for j in range(k + 1)]))
                                st.goal("assembly-rotated")
        st.sample(dict(family="typing", enz=enz, kind="module", rotation=1, way="method"))
    else:
        from . import c02
        rows = regs.table()[arg[0]:arg[1]]
        for row in rows:
            try:
                cls = gen.class_by_name(row["cls"])
            except KeyError:
                st.filtered += 1
                continue
            G = signature_free_class(cls)
            if G is None:
                st.filtered += 1
                continue
            g = gen.geometry_of(G.cutter)
            s = row["seq"]
            if rm.count_sites(s, g) != 2:
                st.filtered += 1
                continue
            gen.prime([G])
            m = rm.Matcher(G.structure()).search(s, True)
            n = len(s)
            if m is None:
                rots = [0]
            else:
                win = c02.window(m["spans"], n)
                rots = [0] + (win[:: max(1, len(win) // 4)] if tier == "quick" else win)
            check_typing(st, "registry", G, s, sorted(set(rots)), dict(family="registry", reg=row["reg"], id=row["id"], cls=G.__name__),
                         ways=("string",) if tier == "quick" else ("string", "method"))
            st.goal("registry-typing")
        if rows:
            st.sample(dict(family="registry", reg=rows[0]["reg"], id=rows[0]["id"], rotation=0, way="string"))


def replay(scn, sub, st):
    if scn.get("family") == "typing":
        M, V = gen.generic_classes(scn["enz"])
        cls = M if scn["kind"] == "module" else V
        gen.prime([cls])
        check_typing(st, "typing", cls, scn["seq"], [scn["rotation"]], {k: v for k, v in scn.items() if k not in ("rotation", "way")},
                     ways=() if scn["way"] == "positions" else (scn["way"],))
    elif scn.get("family") == "registry":
        row = regs.by_id(scn["reg"], scn["id"])
        cls = gen.class_by_name(scn["cls"])
        gen.prime([cls])
        check_typing(st, "registry", cls, row["seq"], [scn["rotation"]], {k: v for k, v in scn.items() if k not in ("rotation", "way")}, ways=(scn["way"],))
    else:
        s2 = dict(scn)
        s2.pop("strand", None)
        check_assembly(st, s2)
