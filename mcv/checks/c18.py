"""C18 -- Letter case of the input sequences never changes the outcome.  (E1, case axis)

(a) successful assemblies (6 geometries, k<=2) under: every per-record choice {upper, lower}^(k+1); every single
    region lowered in an upper-case plasmid / raised in a lower-case one; alternating case in both phases;
(b) failing assemblies (missing module, duplicate starts, reverse-complementary starts, equal vector overhangs)
    under every per-record choice: same exception class, same stall overhang up to case;
(c) every per-letter case assignment of both occurrences of a junction overhang (2^ov x 2^ov);
(d) typing of every kit class on its instances and of signature-typed parts under whole-record transforms.
Reference: the all-upper-case run of the same scenario.
"""
import itertools

from .. import asm, gen, refmodel as rm
from ..engine import HarnessError
from Bio.Seq import Seq
from moclo.record import CircularRecord

ID = "C18"
TITLE = "letter case never changes the outcome"
RULE = ("one scenario per (base scenario, case assignment); non-trivial when at least one letter is lower case; "
        "distinct by construction")
ASSUMPTIONS = ["the all-upper-case run of the same scenario is the reference (its correctness is C01/C03's business)"]
ENZ = ["BsaI", "BbsI", "BspQI", "BspD6I", "BccI", "FokI"]


def bounds(tier):
    return dict(enzymes=ENZ, k=[1, 2], per_record="{upper,lower,alternating0,alternating1}^(k+1), each also in 4 container assignments (MutableSeq / annotated) and with the plasmids stored at 3 other rotations",
                palindromic_junctions="per-letter family also on the bases with a palindromic first / last junction", half_lowered="error family: each record upper, lower or first half lower",
                per_record_plain="{upper,lower}^(k+1)", regions="site, filler, overhangs, body, backbone, placeholder of each plasmid",
                alternating="both phases, all records and one record", per_letter="both occurrences of each junction overhang, all 2^ov x 2^ov assignments (BsaI k=1; BspD6I k=2)",
                errors="missing / duplicate / reverse-complementary / invalid vector x {upper,lower}^(k+1)",
                typing="every concrete kit class x instances (own, siblings', with an extra cutter site) x {lower, alternating0, alternating1, lower-case prefix / suffix of k/6 of the record}")


def goals(tier):
    return ["ambiguity-code-N-inside-a-junction-overhang", "two-clashing-pairs", "records-respelled-in-place-between-two-assemblies", "spelling-in-another-container", "spelling-of-rotated-plasmids", "per-letter-palindromic-junction", "mixed-case-between-records", "region-lowered", "region-raised", "per-letter-overhang", "error-MissingModule", "error-DuplicateModules",
            "error-InvalidSequence", "typing-accepts", "typing-rejects", "alternating", "per-letter-equal-vector-overhangs", "ambiguity-code-N-in-either-case"]


def alt(s, phase):
    return "".join(c.upper() if (i + phase) % 2 == 0 else c.lower() for i, c in enumerate(s))


def transform(s, t):
    if t == "U":
        return s.upper()
    if t == "L":
        return s.lower()
    if t == "A0":
        return alt(s, 0)
    if t == "A1":
        return alt(s, 1)
    if t[0] in "PS":
        # block-wise spelling: a lower-case prefix (P) or suffix (S) of n*k/6 letters (soft-masked regions)
        cut = len(s) * int(t[1]) // 6
        return (s[:cut].lower() + s[cut:].upper()) if t[0] == "P" else (s[:cut].upper() + s[cut:].lower())
    raise ValueError(t)


def region_spans(scn, which):
    """[(name, start, end)] of plasmid `which` (0 = vector) in pieces_to_plasmids coordinates"""
    g = gen.geometry_of(gen.enzyme(scn["enz"]))
    L = len(g.site)
    if which == 0:
        marks = [("up", g.ov), ("backbone", len(scn["vbb"])), ("down", g.ov), ("filler-y", g.off), ("rsite", L),
                 ("placeholder", len(scn["vph"])), ("site", L), ("filler-x", g.off)]
    else:
        i = which - 1
        marks = [("site", L), ("filler-x", g.off), ("o5", g.ov), ("body", len(scn["bodies"][i])), ("o3", g.ov),
                 ("filler-y", g.off), ("rsite", L), ("backbone", len(scn["mbbs"][i]))]
    out = []
    pos = 0
    for name, ln in marks:
        if ln:
            out.append((name, pos, pos + ln))
        pos += ln
    return out


def outcome_key(o):
    if o.kind == "product":
        return ("product", rm.canon_rot(o.seq.upper()), tuple(tuple(sorted(u)) for u in o.attrs.get("unused", [])))
    if o.kind == "moclo-error":
        return ("error", o.exc_name, o.attrs.get("start_overhang", "").upper(), tuple(sorted(o.attrs.get("duplicates", []))))
    return (o.kind, o.exc_name)


def run_strings(enz, strings, ids=None, containers=None, respell_in_place=False):
    M, V = gen.generic_classes(enz)
    conts = containers or ["seq"] * len(strings)
    if respell_in_place:
        # the entities are created (and used once) on the upper-case spelling; the records are then re-spelled IN PLACE and the
        # same entities assemble again
        v = V(gen.contained(strings[0].upper(), conts[0], "vec"))
        ms = [M(gen.contained(x.upper(), conts[i + 1], "mod%d" % i)) for i, x in enumerate(strings[1:])]
        asm.run_assemble(v, ms)
        for e_, s_ in zip([v] + ms, strings):
            e_.record.seq = Seq(s_)
        return asm.run_assemble(v, ms)
    v = V(gen.contained(strings[0], conts[0], "vec"))
    ms = [M(gen.contained(x, conts[i + 1], "mod%d" % i)) for i, x in enumerate(strings[1:])]
    return asm.run_assemble(v, ms)


def compare(st, sub, enz, upper_strings, cased_strings, scn, ref_cache):
    key = tuple(upper_strings)
    if key not in ref_cache:
        ref_cache[key] = outcome_key(run_strings(enz, list(upper_strings)))
    ref = ref_cache[key]
    got = outcome_key(run_strings(enz, cased_strings, containers=scn.get("containers"), respell_in_place=scn.get("respell_in_place", False)))
    st.scenario(ref[0] if ref[0] != "error" else "error:" + ref[1], None)
    if any(s != s.upper() for s in cased_strings):
        st.nontrivial += 1
    if ref[0] == "error":
        st.goal("error-" + ("InvalidSequence" if ref[1] in ("InvalidSequence", "IllegalSite") else ref[1]))
    if got != ref:
        if ref[0] == "product" and got[0] != "product":
            cause = "mixed-case-assembly-fails-" + str(got[1])
        elif ref[0] == "product":
            cause = "mixed-case-product-differs"
        elif got[0] == "product":
            cause = "mixed-case-assembly-succeeds-where-upper-fails"
        else:
            cause = "different-error-" + str(got[1]) + "-instead-of-" + str(ref[1])
        st.violation(sub, cause, dict(scn, strings=cased_strings), list(map(str, ref))[:3], list(map(str, got))[:3])
    return ref


def letters_for_base(st, enz, k, g, base, pj, cache):
    vec, mods = asm.pieces_to_plasmids(base)
    up = [vec.upper()] + [m.upper() for m in mods]
    # junction j: module j's o5 and (vector down if j == 0 else module j-1's o3); junction k: module k-1's o3 and vector up
    L = len(g.site)
    for j in range(k + 1):
        occ = []
        if j == 0:
            occ.append((0, g.ov + len(base["vbb"])))
        elif j < k + 1 and j >= 1:
            body = len(base["bodies"][j - 1])
            occ.append((j, L + g.off + g.ov + body))
        if j < k:
            occ.append((j + 1, L + g.off))
        else:
            occ.append((0, 0))
        masks = list(itertools.product((0, 1), repeat=g.ov))
        for ma in masks:
            for mb in masks:
                cased = list(up)
                for (which, start), mask in zip(occ, (ma, mb)):
                    s = cased[which]
                    seg = "".join(c.lower() if bit else c for c, bit in zip(s[start:start + g.ov], mask))
                    cased[which] = s[:start] + seg + s[start + g.ov:]
                compare(st, "letters", enz, up, cased, dict(family="letters", enz=enz, k=k, junction=j, masks=[list(ma), list(mb)], palindromic_junction=pj), cache)
                st.goal("per-letter-overhang")
    # a vector whose two overhangs coincide must be refused whatever the spelling of either occurrence
    if k == 1 and pj is None:
        eq = dict(base, ovs=[base["ovs"][0], base["ovs"][0]])
        vec2, mods2 = asm.pieces_to_plasmids(eq)
        up2 = [vec2.upper(), mods2[0].upper()]
        masks = list(itertools.product((0, 1), repeat=g.ov))
        occ = [(0, 0), (0, g.ov + len(base["vbb"]))]
        for ma in masks:
            for mb in masks:
                cased = list(up2)
                for (which, start), mask in zip(occ, (ma, mb)):
                    s = cased[which]
                    seg = "".join(c.lower() if bit else c for c, bit in zip(s[start:start + g.ov], mask))
                    cased[which] = s[:start] + seg + s[start + g.ov:]
                compare(st, "letters", enz, up2, cased, dict(family="letters", enz=enz, k=k, junction="vector-with-equal-overhangs", masks=[list(ma), list(mb)]), cache)
                st.goal("per-letter-equal-vector-overhangs")


def units(tier):
    us = []
    for enz in ENZ:
        for k in (1, 2):
            us.append(("assembly", (enz, k)))
    us.append(("letters", ("BsaI", 1)))
    us.append(("letters", ("BspD6I", 2)))
    us.append(("errors", "BbsI"))
    us.append(("errors", "BspQI"))
    cls = gen.kit_classes()
    for i in range(0, len(cls), 5):
        us.append(("typing", [c.__name__ for c in cls[i:i + 5]]))
    return us


def run_unit(unit, st, tier):
    kind, arg = unit
    cache = {}
    if kind == "assembly":
        enz, k = arg
        M, V = gen.generic_classes(enz)
        gen.prime([M, V])
        base = asm.base_scenario(enz, k)
        if base is None or not asm.well_formed(base)[0]:
            st.filtered += 1
            return
        vec, mods = asm.pieces_to_plasmids(base)
        up = [vec.upper()] + [m.upper() for m in mods]
        # per-record choices, incl. alternating
        for combo in itertools.product(["U", "L", "A0", "A1"], repeat=k + 1):
            cased = [transform(s, t) for s, t in zip(up, combo)]
            compare(st, "assembly", enz, up, cased, dict(family="assembly", enz=enz, k=k, case=list(combo)), cache)
            compare(st, "assembly", enz, up, cased, dict(family="assembly", enz=enz, k=k, case=list(combo), respell_in_place=True), cache)
            st.goal("records-respelled-in-place-between-two-assemblies")
            # the same spellings in records of the other containers (MutableSeq; fully annotated), all of them or the vector only
            for conts in (["mutable"] * (k + 1), ["annotated"] * (k + 1), ["mutable"] + ["seq"] * k, ["seq"] + ["mutable"] * k):
                compare(st, "assembly", enz, up, cased, dict(family="assembly", enz=enz, k=k, case=list(combo), containers=conts), cache)
                st.goal("spelling-in-another-container")
            # the same spellings with every plasmid stored at another rotation: origin inside each one's first overhang, inside its
            # first site, and in the middle of the record (the spelling is applied first, then the rotation)
            g_ = gen.geometry_of(gen.enzyme(enz))
            for where in ("overhang", "site", "middle"):
                rots = []
                for j, s_ in enumerate(up):
                    first_ov = 0 if j == 0 else len(g_.site) + g_.off
                    first_site = (g_.ov + len(base["vbb"]) + g_.ov + g_.off) if j == 0 else 0
                    p_ = {"overhang": first_ov + max(1, g_.ov // 2), "site": first_site + 2, "middle": len(s_) // 2}[where]
                    rots.append((len(s_) - p_) % len(s_))
                up_r = [rm.rot_right(s_, r_) for s_, r_ in zip(up, rots)]
                cased_r = [rm.rot_right(s_, r_) for s_, r_ in zip(cased, rots)]
                compare(st, "assembly", enz, up_r, cased_r, dict(family="assembly", enz=enz, k=k, case=list(combo), origin_in=where), cache)
                st.goal("spelling-of-rotated-plasmids")
            if len(set(combo)) > 1:
                st.goal("mixed-case-between-records")
            if "A0" in combo or "A1" in combo:
                st.goal("alternating")
        # single region flipped
        for which in range(k + 1):
            for name, a, b in region_spans(base, which):
                for mode in ("lower-in-upper", "upper-in-lower"):
                    cased = list(up) if mode == "lower-in-upper" else [s.lower() for s in up]
                    s = cased[which]
                    seg = s[a:b].lower() if mode == "lower-in-upper" else s[a:b].upper()
                    cased[which] = s[:a] + seg + s[b:]
                    compare(st, "assembly", enz, up, cased, dict(family="assembly", enz=enz, k=k, plasmid=which, region=name, mode=mode), cache)
                    st.goal("region-lowered" if mode == "lower-in-upper" else "region-raised")
        # the same with the ambiguity code N (the one non-nucleotide letter the structures accept) in every retained and
        # discarded region: its case must not matter either
        def with_n(s_):
            return s_[: len(s_) // 2] + "N" + s_[len(s_) // 2 + 1:] if len(s_) >= 2 else s_
        nb = dict(base, bodies=[with_n(b) for b in base["bodies"]], mbbs=[with_n(b) for b in base["mbbs"]],
                  vbb=with_n(base["vbb"]), vph=with_n(base["vph"]), fills=[[("N" + f[0][1:]) if f[0] else f[0], f[1]] for f in base["fills"]])
        vecn, modsn = asm.pieces_to_plasmids(nb)
        upn = [vecn.upper()] + [m.upper() for m in modsn]
        g0 = gen.geometry_of(gen.enzyme(enz))
        if all(rm.count_sites(p_, g0) == 2 for p_ in upn):
            for combo in itertools.product(["U", "L", "A0", "A1"], repeat=k + 1):
                cased = [transform(s, t) for s, t in zip(upn, combo)]
                compare(st, "assembly", enz, upn, cased, dict(family="assembly", enz=enz, k=k, case=list(combo), with_N=True), cache)
                st.goal("ambiguity-code-N-in-either-case")
        # ... and N inside a junction overhang itself (each junction in turn): both copies carry it, in whatever case
        if g0.ov >= 2:
            for j in range(k + 1):
                w = base["ovs"][j]
                jb = dict(base, ovs=[(w[:1] + "N" + w[2:]) if i == j else x for i, x in enumerate(base["ovs"])])
                if not asm.well_formed(jb)[0]:
                    st.filtered += 1
                    continue
                vecj, modsj = asm.pieces_to_plasmids(jb)
                upj = [vecj.upper()] + [m.upper() for m in modsj]
                for combo in itertools.product(["U", "L", "A0", "A1"], repeat=k + 1):
                    cased = [transform(s, t) for s, t in zip(upj, combo)]
                    compare(st, "assembly", enz, upj, cased, dict(family="assembly", enz=enz, k=k, case=list(combo), N_in_junction=j), cache)
                    st.goal("ambiguity-code-N-inside-a-junction-overhang")
        st.sample(dict(family="assembly", enz=enz, k=k, case=["U"] + ["L"] * k))
    elif kind == "letters":
        enz, k = arg
        g = gen.geometry_of(gen.enzyme(enz))
        M, V = gen.generic_classes(enz)
        gen.prime([M, V])
        # the plain base scenario, and the ones with a palindromic junction overhang (first / last junction)
        bases = [(None, asm.base_scenario(enz, k))]
        if g.ov % 2 == 0:
            for pj in sorted({0, k - 1}):
                b_ = asm.base_scenario(enz, k, palindromic_junction=pj)
                if b_ is not None and asm.well_formed(b_)[0]:
                    bases.append((pj, b_))
                    st.goal("per-letter-palindromic-junction")
        for pj, base in bases:
            letters_for_base(st, enz, k, g, base, pj, cache)
        st.sample(dict(family="letters", enz=enz, k=k, junction=0, masks=[[1, 0, 0, 0][: g.ov], [0] * g.ov]))
    elif kind == "errors":
        from . import c03
        enz = arg
        M, V = gen.generic_classes(enz)
        gen.prime([M, V])
        enz03 = "BpiI" if enz == "BbsI" else "SapI"
        A = c03.ALPHA[enz03][:4]
        types = [(s, e) for s in A for e in A]
        for vup in A[:3]:
            for vdown in A[:3]:
                for k in (1, 2):
                    for multiset in itertools.combinations_with_replacement(range(len(types)), k):
                        mods = [types[i] for i in multiset]
                        model = rm.assembly_outcome(vup, vdown, mods)
                        vs = c03.vec_string(enz03, vup, vdown)
                        ms = [c03.mod_string(enz03, s, e, i) for i, (s, e) in enumerate(mods)]
                        if vs is None or any(m is None for m in ms):
                            st.filtered += 1
                            continue
                        up = [vs[0].upper()] + [m[0].upper() for m in ms]
                        # per record: upper, lower, or its first half in lower case (its two overhangs then differ in spelling)
                        for combo in itertools.product(["U", "L", "P3"], repeat=k + 1):
                            if set(combo) == {"U"}:
                                continue
                            cased = [transform(s, t) for s, t in zip(up, combo)]
                            compare(st, "errors", enz03, up, cased, dict(family="errors", enz=enz03, vup=vup, vdown=vdown, mods=[list(m) for m in mods], case=list(combo)), cache)
        # two clashing pairs at once (a1, a2 start alike; g1, g2 start alike): the SAME pair must be named whatever the spelling
        for vup, vdown in ((A[0], A[1]), (A[2], A[0])):
            mods = [(A[1], A[2]), (A[1], A[3]), (A[3], A[0]), (A[3], A[2])]
            vs = c03.vec_string(enz03, vup, vdown)
            ms = [c03.mod_string(enz03, s, e, i) for i, (s, e) in enumerate(mods)]
            if vs is None or any(m is None for m in ms):
                st.filtered += 1
                continue
            up = [vs[0].upper()] + [m[0].upper() for m in ms]
            for order in ([0, 1, 2, 3], [2, 3, 0, 1], [1, 2, 0, 3]):
                upo = [up[0]] + [up[1 + i] for i in order]
                for combo in itertools.product(["U", "L", "P3"], repeat=5):
                    if set(combo) == {"U"}:
                        continue
                    cased = [transform(s, t) for s, t in zip(upo, combo)]
                    compare(st, "errors", enz03, upo, cased, dict(family="errors", enz=enz03, vup=vup, vdown=vdown, mods=[list(mods[i]) for i in order], case=list(combo), two_pairs=True), cache)
                    st.goal("two-clashing-pairs")
        st.sample(dict(family="errors", enz=enz03, vup=A[0], vdown=A[1], mods=[[A[2], A[0]]], case=["U", "L"]))
    else:
        from . import c16
        for name in arg:
            cls = gen.class_by_name(name)
            gen.prime([cls])
            texts = [t for t, _ in c16.kit_instances(cls)][:2]
            # an instance of another class (mostly rejected) as well
            others = [c for c in gen.kit_classes() if c.__module__ == cls.__module__ and c is not cls][:2]
            texts += [c16.kit_instances(o)[0][0] for o in others]
            # an instance carrying one more (illegal) site of the class cutter in the middle of its wildcard run
            g = gen.geometry_of(cls.cutter)
            w = "ACTTGA" + g.site + "TCAAGT"
            try:
                t2, _ = gen.instantiate(cls.structure(), fill_scheme=0, star_text=w, forbid=["GGTCTC", "CGTCTC", "GAAGAC"])
                texts.append(t2 + "ACGTA")
                t3, _ = gen.instantiate(cls.structure(), fill_scheme=0, star_text="ACTTGA" + g.rsite + "TCAAGT", forbid=["GGTCTC", "CGTCTC", "GAAGAC"])
                texts.append(t3 + "ACGTA")
            except Exception:
                pass
            for text in texts:
                ref = typing_obs(cls, text.upper())
                for t in ("L", "A0", "A1", "P1", "P2", "P3", "P4", "P5", "S1", "S2", "S3", "S4", "S5"):
                    s = transform(text, t)
                    got = typing_obs(cls, s)
                    st.scenario("typing-" + ("accepts" if ref[0] is True else "rejects"), None)
                    st.nontrivial += 1
                    st.goal("typing-accepts" if ref[0] is True else "typing-rejects")
                    if got != ref:
                        cause = "verdict-depends-on-case" if got[0] != ref[0] else "reported-values-differ-beyond-case"
                        st.violation("typing", cause, dict(family="typing", cls=name, seq=s), ref, got)
        st.sample(dict(family="typing", cls=arg[0], case="A1"))


def typing_obs(cls, s):
    e = cls(CircularRecord(Seq(s), id="t"))
    try:
        if not e.is_valid():
            return (False,)
        out = [True, str(e.overhang_start()).upper(), str(e.overhang_end()).upper(), str(e.target_sequence().seq).upper()]
        if gen.is_vector_class(cls):
            out.append(str(e.placeholder_sequence().seq).upper())
        return tuple(out)
    except Exception as ex:
        return ("raises", type(ex).__name__)


def replay(scn, sub, st):
    fam = scn["family"]
    if fam == "typing":
        cls = gen.class_by_name(scn["cls"])
        gen.prime([cls])
        ref = typing_obs(cls, scn["seq"].upper())
        got = typing_obs(cls, scn["seq"])
        if ref != got:
            st.violation(sub, "typing-depends-on-case", scn, ref, got)
        return
    enz = scn["enz"]
    M, V = gen.generic_classes(enz)
    gen.prime([M, V])
    cased = scn["strings"]
    compare(st, sub, enz, [s.upper() for s in cased], cased, {k: v for k, v in scn.items() if k != "strings"}, {})
