"""C14 -- Reverse complement of a circular record stays circular and loses nothing.  (E2, closure)

Transitions: rc, >>1, <<1, >>k (k in a menu).  The reachable set is the dihedral group (<= 2n
states).  Every edge is compared with the reference (string reverse complement, position flip);
on every state the commutation law rc(r >> k) == rc(r) << k and the involution law are checked
through the implementation itself.
"""
from .. import gen, refmodel as rm, snapshot
from ..engine import HarnessError
from . import c13
from moclo.record import CircularRecord

ID = "C14"
TITLE = "reverse complement stays circular and loses nothing"
RULE = ("BFS over live records under {rc, >>1, <<1, >>k}: one scenario per edge plus one per (state, k) commutation "
        "check; non-trivial when the operation is rc or a commutation check with k mod n != 0; distinct by construction")
ASSUMPTIONS = [
    "identifiers/annotations dropped by Biopython's reverse_complement defaults are not demanded (DESIGN 5.7)",
    "features are compared as a multiset of (type, id, qualifiers, denoted nucleotides in reading order); Biopython re-sorts them",
    "a feature covering the whole circle is compared up to cyclic shift of its reading",
]


def bounds(tier):
    if tier == "quick":
        return dict(lengths=list(range(1, 13)) + [16], ops=["rc", ">>1", "<<1", ">>2", ">>n-1", ">>n+1", ">>-3"], observed="sequence, features (all location flavours and qualifier shapes), per-letter tracks",
                    flags=[f for f, _ in FLAG_VARIANTS])
    return dict(lengths=list(range(1, 16)) + [16, 23, 40], ops=["rc", ">>1", "<<1", ">>2", ">>n-1", ">>n+1", ">>-3"], observed="sequence, features (all location flavours and qualifier shapes), per-letter tracks",
                flags=[f for f, _ in FLAG_VARIANTS])


def goals(tier):
    return ["closure-reached", "rc-of-past-the-end-location", "dihedral-2n-states", "negative-start-location-rotated",
            "commutation-checked", "involution-checked", "rc-with-non-default-flags", "operand-unchanged-checked", "spelling-aware-closure", "edited-between-reverse-complements"]


def units(tier):
    us = []
    for n in bounds(tier)["lengths"]:
        t = c13.table(n)
        nsl = max(1, (len(t) + c13.SLICE - 1) // c13.SLICE)
        for s in range(nsl):
            us.append((n, s, nsl))
    return us


RAW_N = {"quick": 8, "thorough": 10}
RAW_CAP = 5000
FLAG_VARIANTS = [("id", True), ("name", True), ("description", True), ("annotations", True), ("letter_annotations", False),
                 ("dbxrefs", True), ("features", True)]


def ops(n):
    return [("rc", 0), (">>", 1), ("<<", 1), (">>", 2), (">>", n - 1), (">>", n + 1), (">>", -3)]


def apply(rec, op, k):
    if op == "rc":
        return rec.reverse_complement()
    return c13.apply(rec, op, k)


def obs_of(rec, n):
    o = c13.observe(rec, n)
    return dict(seq=o["seq"], feats=o["feats"], la=o["la"], cls=type(rec).__name__)


def m_apply(m, op, k, n):
    """model operation on an observation dict"""
    if op == "rc":
        feats = [[f[0], f[1], f[2], c13.canon_den(rm.revcomp_denoted(f[3], n), n)] for f in m["feats"]]
        feats.sort(key=lambda x: (x[1], x[0]))
        return dict(seq=rm.revcomp(m["seq"]), feats=feats, la={k: v[::-1] for k, v in m["la"].items()}, cls="CircularRecord")
    r = k if op == ">>" else -k
    feats = [[f[0], f[1], f[2], c13.canon_den(rm.rotate_denoted(f[3], n, r), n)] for f in m["feats"]]
    feats.sort(key=lambda x: (x[1], x[0]))
    return dict(seq=rm.rot_right(m["seq"], r), feats=feats, la={k: c13.rot_list(v, r) if not isinstance(v, str) else rm.rot_right(v, r) for k, v in m["la"].items()},
                cls="CircularRecord")


def compare(st, sub, scn, obs, exp):
    if obs["cls"] != "CircularRecord":
        st.violation(sub, "not-a-circular-record", scn, "CircularRecord", obs["cls"])
        return False
    if obs["seq"] != exp["seq"]:
        st.violation(sub, "sequence", scn, exp["seq"], obs["seq"])
        return False
    if exp.get("la") is not None and obs.get("la") != exp["la"]:
        st.violation(sub, "letter-annotations", scn, {k: str(v)[:60] for k, v in exp["la"].items()}, {k: str(v)[:60] for k, v in (obs.get("la") or {}).items()})
        return False
    if obs["feats"] != exp["feats"]:
        o = {(f[1], f[0]): f for f in obs["feats"]}
        e = {(f[1], f[0]): f for f in exp["feats"]}
        if set(o) != set(e) or len(obs["feats"]) != len(exp["feats"]):
            st.violation(sub, "feature-lost-or-invented", scn, len(exp["feats"]), len(obs["feats"]))
        else:
            for k in sorted(e):
                if o[k] != e[k]:
                    cause = "feature-qualifiers" if o[k][2] != e[k][2] else "feature-nucleotides"
                    st.violation(sub, cause, dict(scn, feature=list(k)), e[k][3], o[k][3])
                    break
        return False
    return True


def run_unit(unit, st, tier):
    n, s, nsl = unit
    init = c13.initial(n, s, nsl)
    rec0 = c13.build(init)
    m0 = obs_of(rec0, n)
    mm = c13.model(init, 0)
    if (m0["seq"], m0["feats"]) != (mm["seq"], mm["feats"]):
        raise HarnessError("model and implementation disagree on the initial record n={}".format(n))
    # Merging states by what they denote is only sound if equal denotations have equal futures; the library's own spelling of a
    # location (past-the-end, negative coordinates) depends on the path.  Up to RAW_N the state therefore also holds that spelling
    # (the closure is then larger than the dihedral group: about 2^n spellings); above it states are merged by denotation only.
    raw = n <= RAW_N[tier]

    def skey(rec_, obs_):
        return snapshot.key(obs_) + (c13.raw_spelling(rec_) if raw else "")
    key0 = skey(rec0, m0)
    den_seen = {snapshot.key(m0)}
    seen = {key0: (rec0, m0, [])}
    frontier = [key0]
    while frontier:
        nxt = []
        for key in frontier:
            rec, m, hist = seen[key]
            # laws checked through the implementation on every state
            try:
                rcrec = rec.reverse_complement()
                back = obs_of(rcrec.reverse_complement(), n)
                scn = dict(n=n, table_slice=[s, nsl], history=hist, op="rc-rc", k=0)
                compare(st, "involution", scn, back, dict(m, cls="CircularRecord"))
                st.goal("involution-checked")
                st.scenario("involution", None, nodes=0)
                st.nontrivial += 1
                for k in sorted(set(kk % n for kk in (1, 2, n - 1, n // 2)) | {n + 1, -2}):
                    scn = dict(n=n, table_slice=[s, nsl], history=hist, op="commute", k=k)
                    a = obs_of((rec >> k).reverse_complement(), n)
                    b = obs_of(rcrec << k, n)
                    compare(st, "commutation", scn, a, b)
                    # and both against the model
                    compare(st, "commutation-model", scn, a, m_apply(m_apply(m, ">>", k, n), "rc", 0, n))
                    st.goal("commutation-checked")
                    st.scenario("commutation", None, nodes=0, calls=4)
                    if k % n:
                        st.nontrivial += 1
            except Exception as e:
                st.violation("laws", "raises-" + type(e).__name__, dict(n=n, table_slice=[s, nsl], history=hist, op="laws", k=0),
                             "no exception", "{}: {}".format(type(e).__name__, e))
            # reverse complement called with each optional flag switched away from its default (features stay requested)
            for flag, val in FLAG_VARIANTS:
                scn = dict(n=n, table_slice=[s, nsl], history=hist, op="rc-flag", k=0, flag=flag, value=val)
                try:
                    out = rec.reverse_complement(**{flag: val})
                    compare(st, "flags", scn, obs_of(out, n), dict(m_apply(m, "rc", 0, n), la=None) if flag == "letter_annotations" else m_apply(m, "rc", 0, n))
                except Exception as e:
                    st.violation("flags", "raises-" + type(e).__name__, scn, "a record", "{}: {}".format(type(e).__name__, e))
                st.scenario("rc-flag", None, nodes=0)
                st.nontrivial += 1
                st.goal("rc-with-non-default-flags")
            for (op, k) in ops(n):
                scn = dict(n=n, table_slice=[s, nsl], history=hist, op=op, k=k)
                if op == "rc" and any(pp[1] > n or pp[0] < 0 for f in rec.features for pp in snapshot.loc_parts(f.location)):
                    st.goal("rc-of-past-the-end-location")
                if op != "rc" and any(pp[0] < 0 for f in rec.features for pp in snapshot.loc_parts(f.location)):
                    st.goal("negative-start-location-rotated")
                try:
                    out = apply(rec, op, k)
                except Exception as e:
                    st.violation("edge", "raises-" + type(e).__name__, scn, "a record", "{}: {}".format(type(e).__name__, e))
                    st.scenario("raised", None)
                    continue
                obs = obs_of(out, n)
                exp = m_apply(m, op, k, n)
                compare(st, "edge", scn, obs, exp)
                st.scenario("rc" if op == "rc" else "rotation", None, nodes=0)
                if op == "rc":
                    st.nontrivial += 1
                kk = skey(out, obs)
                den_seen.add(snapshot.key(obs))
                if kk not in seen:
                    seen[kk] = (out, exp, hist + [[op, k]])
                    nxt.append(kk)
            if skey(rec, obs_of(rec, n)) != key:
                st.violation("edge", "operand-modified", dict(n=n, table_slice=[s, nsl], history=hist, op="rc", k=0), "operand unchanged", "changed")
            st.goal("operand-unchanged-checked")
            if len(den_seen) > 2 * n or len(seen) > RAW_CAP:
                break
        if len(seen) > RAW_CAP and len(den_seen) <= 2 * n:
            st.caps.append("n={}: spelling-aware search stopped at {} states".format(n, len(seen)))
            break
        if len(den_seen) > 2 * n:
            # the dihedral group of a record of length n has at most 2n elements: the search would not close
            st.violation("edge", "more-reachable-states-than-the-dihedral-group", dict(n=n, table_slice=[s, nsl], history=[], op="closure", k=0),
                         "<= %d states" % (2 * n), len(den_seen))
            st.caps.append("n={}: search stopped at {} states (> 2n)".format(n, len(seen)))
            break
        frontier = nxt
    st.states += len(seen)
    edit_pass(st, init, n, s, nsl)
    st.goal("closure-reached")
    if len(den_seen) == 2 * n or n <= 2 or len(set(init["seq"])) < n:
        st.goal("dihedral-2n-states")
    if raw and n >= 4:
        st.goal("spelling-aware-closure")
    st.extra["max_states_one_graph"] = max(st.extra["max_states_one_graph"], len(seen))
    st.sample(dict(n=n, table_slice=[s, nsl], history=[[">>", 1]], op="rc", k=0, seq=init["seq"]))


def edit_pass(st, init, n, s, nsl):
    """A record that came out of a reverse complement is edited and reverse-complemented again -- and the record it was made from is
    edited afterwards: only the present content of the operand counts."""
    if n < 3:
        return
    for a in sorted({0, 1, n // 2}):
        for who in ("result-edited", "source-edited"):
            scn = dict(n=n, table_slice=[s, nsl], history=[[">>", a]], op="rc-edit", k=0, who=who)
            try:
                x = c13.build(init) >> a if a else c13.build(init)
                mx = obs_of(x, n)
                q = x.reverse_complement()
                mq = obs_of(q, n)
                if who == "result-edited":
                    c13.edited(q)
                    out = q.reverse_complement()
                    exp = m_apply(mq, "rc", 0, n)
                    late = gen.mk_feature([(0, min(2, n), 1)], type="misc_feature", fid="late9")
                    import json as _json
                    exp["feats"].append([late.type, late.id, _json.dumps(snapshot._plain(dict(late.qualifiers)), sort_keys=True),
                                         c13.canon_den(rm.revcomp_denoted(rm.denoted([(0, min(2, n), 1)], n), n), n)])
                    exp["feats"].sort(key=lambda f: (f[1], f[0]))
                else:
                    c13.edited(x)
                    out = q.reverse_complement()
                    exp = m_apply(mq, "rc", 0, n)
            except Exception as e:
                st.violation("edit", "raises-" + type(e).__name__, scn, "a record", "{}: {}".format(type(e).__name__, e))
                continue
            compare(st, "edit", scn, obs_of(out, n), exp)
            st.scenario("rc-after-edit", None, nodes=0)
            st.nontrivial += 1
    st.goal("edited-between-reverse-complements")


def replay(scn, sub, st):
    n = scn["n"]
    s, nsl = scn["table_slice"]
    if scn["op"] == "closure":
        run_unit((n, s, nsl), st, "quick")     # the whole search of this graph is the scenario
        return
    if scn["op"] == "rc-edit":
        edit_pass(st, c13.initial(n, s, nsl), n, s, nsl)
        return
    init = c13.initial(n, s, nsl)
    rec = c13.build(init)
    m = obs_of(rec, n)
    for op, k in scn["history"]:
        rec = apply(rec, op, k)
        m = m_apply(m, op, k, n)
    op, k = scn["op"], scn["k"]
    if op == "rc-rc":
        compare(st, sub, scn, obs_of(rec.reverse_complement().reverse_complement(), n), dict(m, cls="CircularRecord"))
    elif op == "commute":
        a = obs_of((rec >> k).reverse_complement(), n)
        b = obs_of(rec.reverse_complement() << k, n)
        compare(st, "commutation", scn, a, b)
        compare(st, "commutation-model", scn, a, m_apply(m_apply(m, ">>", k, n), "rc", 0, n))
    elif op == "rc-flag":
        try:
            out = rec.reverse_complement(**{scn["flag"]: scn["value"]})
            compare(st, "flags", scn, obs_of(out, n), dict(m_apply(m, "rc", 0, n), la=None) if scn["flag"] == "letter_annotations" else m_apply(m, "rc", 0, n))
        except Exception as e:
            st.violation(sub, "raises-" + type(e).__name__, scn, "a record", str(e))
    elif op == "laws":
        try:
            rec.reverse_complement().reverse_complement()
            (rec >> 1).reverse_complement()
        except Exception as e:
            st.violation(sub, "raises-" + type(e).__name__, scn, "no exception", str(e))
    else:
        try:
            out = apply(rec, op, k)
        except Exception as e:
            st.violation(sub, "raises-" + type(e).__name__, scn, "a record", str(e))
            return
        compare(st, sub, scn, obs_of(out, n), m_apply(m, op, k, n))
