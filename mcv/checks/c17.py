"""C17 -- Validation is total and failures are always reported as MoClo errors.  (E1)

(i)  blind: every string of length 1..L over the 30-symbol alphabet (15 IUPAC letters x 2 cases) x every
     concrete kit class and generic classes over every enzyme geometry;
(ii) near-misses: for every class, every single-symbol substitution (29 alternatives), every single
     deletion and every proper prefix / suffix of an instance of its structure;
(iii) assemblies of k <= 2 in which each participant is independently one of {valid, corrupted in a site,
     corrupted in an overhang, too short, other kind's plasmid, ambiguity letters}, all combinations, plus
     one participant ranging over all single-letter corruptions.
Oracle: is_valid() returns a bool and never raises; invalid -> accessors raise InvalidSequence; valid ->
they return; assemble returns a record or raises a MocloError.
"""
import itertools

from .. import asm, gen, refmodel as rm
from ..engine import HarnessError
from Bio.Seq import Seq
from moclo import errors
from moclo.record import CircularRecord

ID = "C17"
TITLE = "validation is total; failures are MoClo errors"
RULE = ("one scenario per (class, record) resp. per assembly; distinct by construction; non-trivial when the record is a "
        "near-miss of a structure instance, contains an ambiguity or lower-case letter, or the scenario is an assembly")
ASSUMPTIONS = ["records are circular records over the 15-letter IUPAC alphabet in either case, length >= 1"]
ALPHABET = "ACGTRYSWKMBDHVN" + "acgtryswkmbdhvn"


def bounds(tier):
    return dict(blind=dict(alphabet=ALPHABET, lengths=[1, 2, 3], classes="all concrete kit classes + generic module/vector of every enzyme geometry",
                           length4="generic BsaI module+vector, YTKPart1, CIDAREntryVector, YTKProduct, YTKPart234r" if tier == "thorough" else "not explored"),
                near_miss="own class + generic relatives: all substitutions (29), deletions, prefixes, suffixes of 1 (quick) / 2 (thorough) instances",
                containers=["Seq", "MutableSeq", "annotated (features of every location flavour, per-letter annotations, cross references)"],
                assemblies="k<=2, 6 participant states, all combinations, each in 5 container assignments; single-letter corruptions of one participant (BsaI, BpiI)")


def goals(tier):
    return ["blind-complete", "near-miss-valid", "near-miss-invalid", "assembly-product", "assembly-moclo-error", "ambiguity-letter-in-structure",
            "shorter-than-structure", "invalid-accessor-raises", "record-in-every-container", "several-modules-left-over", "long-record-with-an-extra-site", "long-record"]


def probe(st, sub, cls, s, scn, container="seq"):
    """full totality protocol on one (class, record)"""
    try:
        e = cls(gen.contained(s, container, "t"))
        v = e.is_valid()
    except Exception as ex:
        st.violation(sub, "is_valid-raises-" + type(ex).__name__, scn(), "True or False", "{}: {}".format(type(ex).__name__, str(ex)[:120]))
        return None
    if v is not True and v is not False:
        st.violation(sub, "is_valid-returns-non-bool", scn(), "bool", repr(v))
        return None
    accessors = ["overhang_start", "overhang_end", "target_sequence"] + (["placeholder_sequence"] if gen.is_vector_class(cls) else [])
    for a in accessors:
        try:
            getattr(e, a)()
            if not v:
                st.violation(sub, a + "-returns-on-invalid-record", scn(), "InvalidSequence", "returned")
        except errors.InvalidSequence as ex:
            if v:
                st.violation(sub, a + "-raises-on-valid-record", scn(), "a value", "InvalidSequence")
            try:
                str(ex), repr(ex)           # a reported error must be printable
            except Exception as ex2:
                st.violation(sub, "error-message-raises-" + type(ex2).__name__, scn(), "a message", "{}: {}".format(type(ex2).__name__, str(ex2)[:120]))
        except Exception as ex:
            st.violation(sub, a + "-raises-" + type(ex).__name__, scn(), "InvalidSequence" if not v else "a value",
                         "{}: {}".format(type(ex).__name__, str(ex)[:120]))
    return v


def all_classes():
    cls = list(gen.kit_classes())
    for name, g in gen.enzymes():
        cls.extend(gen.generic_classes(name))
    for name, g in gen.degenerate_enzymes():
        cls.extend(gen.generic_classes(name))
    return cls


def units(tier):
    us = []
    for a in ALPHABET:
        us.append(("blind", a))
    if tier == "thorough":
        for a in ALPHABET:
            for b in ALPHABET[::3]:
                us.append(("blind4", a + b))
    for c in gen.kit_classes():
        us.append(("near", c.__name__))
    for name, g in gen.enzymes():
        us.append(("near-generic", name))
    for enz in ("BsaI", "BpiI"):
        us.append(("assembly", enz))
        us.append(("assembly-corrupt", enz))
    return us


def run_unit(unit, st, tier):
    kind, arg = unit
    if kind == "blind":
        classes = gen.prime(all_classes())
        strings = [arg] + [arg + b for b in ALPHABET] + [arg + b + c for b in ALPHABET for c in ALPHABET]
        for s in strings:
            for cls in classes:
                v = probe(st, "blind", cls, s, lambda: dict(family="blind", cls=cls.__name__, seq=s))
                st.evaluations += 1
            st.states += 1
        k = len(strings) * len(classes)
        st.traces += k
        st.transitions += k * 4
        st.outcomes["blind"] += k
        st.nontrivial += sum(1 for s in strings if set(s) - set("ACGT")) * len(classes)
        st.goal("blind-complete")
        st.goal("shorter-than-structure")
        st.goal("invalid-accessor-raises")
        st.sample(dict(family="blind", cls=classes[0].__name__, seq=strings[-1]))
    elif kind == "blind4":
        names = ["GM_BsaI", "GV_BsaI", "YTKPart1", "CIDAREntryVector", "YTKProduct", "YTKPart234r"]
        classes = gen.prime([gen.class_by_name(n) for n in names])
        for b in ALPHABET:
            for c in ALPHABET:
                s = arg + b + c
                for cls in classes:
                    probe(st, "blind", cls, s, lambda: dict(family="blind", cls=cls.__name__, seq=s))
                    st.scenario("blind", None, calls=4)
                    st.nontrivial += 1
    elif kind in ("near", "near-generic"):
        from . import c16
        if kind == "near":
            cls = gen.class_by_name(arg)
            classes = [cls]
            # generic relative of the same kind and cutter also sees the near-misses
            M, V = gen.generic_classes(cls.cutter.__name__)
            classes.append(V if gen.is_vector_class(cls) else M)
            insts = [t for t, _ in c16.kit_instances(cls)][: 1 if tier == "quick" else 2]
        else:
            M, V = gen.generic_classes(arg)
            classes = [M, V]
            scn0 = asm.base_scenario(arg, 1)
            vec, mods = asm.pieces_to_plasmids(scn0)
            insts = [mods[0], vec]
        gen.prime(classes)
        # long records (300 / 1200 letters in the wildcard run) with and without one more cutter site in the middle of the run:
        # whatever is reported about them is reported as for the short ones
        g_ = gen.geometry_of(classes[0].cutter)
        for wl in (300, 1200):
            for site_ in ("", g_.site, g_.rsite):
                w_ = gen.long_word(wl, seed=wl, forbid=["GGTCTC", "CGTCTC", "GAAGAC", g_.site])
                if site_:
                    w_ = w_[: wl // 2] + site_ + w_[wl // 2 + len(site_):]
                try:
                    long_text, _sp = gen.instantiate(classes[0].structure(), fill_scheme=0, star_text=w_, forbid=["GGTCTC", "CGTCTC", "GAAGAC", g_.site])
                except Exception:
                    continue
                long_text += gen.word(1, 50, 6, [g_.site])
                for cls in classes:
                    for s_ in (long_text, long_text.lower(), rm.rot_right(long_text, len(long_text) // 2)):
                        v = probe(st, "near-miss", cls, s_, lambda: dict(family="near", cls=cls.__name__, seq=s_, mod="long" + ("-extra-site" if site_ else "")))
                        st.scenario("near-" + ("valid" if v else "invalid"), None, calls=4)
                        st.nontrivial += 1
                        st.goal("long-record-with-an-extra-site" if site_ else "long-record")
        for text in insts:
            n = len(text)
            variants = []
            for i in range(n):
                for ch in ALPHABET:
                    if ch != text[i]:
                        variants.append(("sub", text[:i] + ch + text[i + 1:]))
                variants.append(("del", text[:i] + text[i + 1:]))
            for i in range(1, n):
                variants.append(("prefix", text[:i]))
                variants.append(("suffix", text[i:]))
            for label, s in variants:
                for cls in classes:
                    v = probe(st, "near-miss", cls, s, lambda: dict(family="near", cls=cls.__name__, seq=s, mod=label))
                    if kind == "near-generic" and s:
                        # the same record in the other containers a user may hand over: same verdict, same totality
                        for cont in gen.CONTAINERS[1:]:
                            v2 = probe(st, "near-miss", cls, s, lambda: dict(family="near", cls=cls.__name__, seq=s, mod=label, container=cont), container=cont)
                            st.scenario("near-container", None, calls=4)
                            st.goal("record-in-every-container")
                            if v2 is not None and v is not None and v2 != v:
                                st.violation("near-miss", "verdict-depends-on-the-container-" + cont, dict(family="near", cls=cls.__name__, seq=s, mod=label, container=cont), v, v2)
                    st.scenario("near-" + ("valid" if v else "invalid"), None, calls=4)
                    st.nontrivial += 1
                    if v:
                        st.goal("near-miss-valid")
                        if set(s.upper()) - set("ACGT"):
                            st.goal("ambiguity-letter-in-structure")
                    elif v is False:
                        st.goal("near-miss-invalid")
        st.sample(dict(family="near", cls=classes[0].__name__, seq=insts[0][:-1], mod="del"))
    elif kind == "assembly":
        unit_assembly(st, arg, tier)
    else:
        unit_assembly_corrupt(st, arg, tier)


STATES = ["valid", "site-corrupted", "overhang-corrupted", "too-short", "other-kind", "ambiguous-letters"]


def participant(enz, role, idx, state, base):
    """string of participant `role` ('v' or module index) in `state`"""
    g = gen.geometry_of(gen.enzyme(enz))
    vec, mods = asm.pieces_to_plasmids(base)
    s = vec if role == "v" else mods[idx]
    if state == "valid":
        return s
    if state == "site-corrupted":
        i = s.find(g.site)
        return s[:i + 2] + ("A" if s[i + 2] != "A" else "C") + s[i + 3:]
    if state == "overhang-corrupted":
        # change one letter of the first overhang of this participant
        if role == "v":
            i = 0
        else:
            i = len(g.site) + g.off
        return s[:i] + ("A" if s[i] != "A" else "C") + s[i + 1:]
    if state == "too-short":
        return s[: len(g.site) + 2]
    if state == "other-kind":
        return mods[0] if role == "v" else vec
    if state == "ambiguous-letters":
        i = (0 if role == "v" else len(g.site) + g.off)
        return s[:i] + "N" + s[i + 1:i + 2] + "r" + s[i + 3:]
    raise ValueError(state)


def run_mixed(st, sub, enz, strings, scn):
    M, V = gen.generic_classes(enz)
    conts = scn.get("containers") or ["seq"] * len(strings)
    idmode = scn.get("ids", "distinct")
    try:
        if idmode == "default":
            v = V(CircularRecord(Seq(strings[0])))
            ms = [M(CircularRecord(Seq(x))) for x in strings[1:]]
        else:
            v = V(gen.contained(strings[0], conts[0], "v"))
            odd = ["part{%d}", "{lib%d", "frag%d}", "100%%s-%d", "a b\t%d"]
            ms = [M(gen.contained(x, conts[i + 1], ("m%d" % i) if idmode == "distinct" else ((odd[i % len(odd)] % i) if idmode == "odd" else "part")))
                  for i, x in enumerate(strings[1:])]
    except Exception as ex:
        raise HarnessError("cannot build participants: {}: {}".format(type(ex).__name__, ex))
    o = asm.run_assemble(v, ms)
    if o.kind == "product":
        st.goal("assembly-product")
        out = "product"
    elif o.kind == "moclo-error":
        st.goal("assembly-moclo-error")
        out = "moclo-error:" + o.exc_name
        try:
            str(o.exc), repr(o.exc)
        except Exception as ex2:
            st.violation(sub, "error-message-raises-" + type(ex2).__name__, scn, "a message", "{}: {}".format(type(ex2).__name__, str(ex2)[:120]))
    elif o.kind == "timeout":
        st.violation(sub, "nontermination", scn, "product or MocloError", "timeout")
        out = "timeout"
    else:
        st.violation(sub, "internal-error-" + o.exc_name, scn, "product or MocloError", o.brief())
        out = "internal-error"
    st.scenario(out, None)
    st.nontrivial += 1


def unit_assembly(st, enz, tier):
    M, V = gen.generic_classes(enz)
    gen.prime([M, V])
    for k in (1, 2):
        base = asm.base_scenario(enz, k)
        for combo in itertools.product(STATES, repeat=k + 1):
            strings = [participant(enz, "v", 0, combo[0], base)] + [participant(enz, "m", i, combo[i + 1], base) for i in range(k)]
            for perm in itertools.permutations(range(k)):
                ss = [strings[0]] + [strings[1 + i] for i in perm]
                run_mixed(st, "assembly", enz, ss, dict(family="assembly", enz=enz, strings=ss, states=list(combo), perm=list(perm)))
                # the same mix under identifiers that hold characters with a meaning in format strings (braces, percent, blanks)
                run_mixed(st, "assembly", enz, ss, dict(family="assembly", enz=enz, strings=ss, states=list(combo), perm=list(perm), ids="odd"))
                # the same mix with the records in the other containers a user may hand over
                for conts in (["mutable"] * (k + 1), ["annotated"] * (k + 1), ["mutable"] + ["seq"] * k, ["seq"] + ["annotated"] * k):
                    run_mixed(st, "assembly", enz, ss, dict(family="assembly", enz=enz, strings=ss, states=list(combo), perm=list(perm), containers=conts))
                    st.goal("record-in-every-container")
    # valid assemblies that leave one, two or three modules over, under every assignment of identifiers (distinct, one shared
    # identifier, none at all), in every argument order: a product and a warning, never an internal error
    base = asm.base_scenario(enz, 1)
    g = gen.geometry_of(gen.enzyme(enz))
    vec, mods = asm.pieces_to_plasmids(base)
    used = set(base["ovs"]) | set(rm.revcomp(o) for o in base["ovs"])
    cand = [w for w in gen.overhang_words(g.ov, min(4 ** g.ov // 2, 14), 3) if w not in used and rm.revcomp(w) not in used]
    extras = []
    for i in range(0, len(cand) - 1, 2):
        if rm.revcomp(cand[i]) in (cand[i], cand[i + 1]) or any(cand[i] in (e_[1], rm.revcomp(e_[1])) for e_ in extras):
            continue
        x = gen.mk_module(g, cand[i], gen.word(i, 9, 4, [g.site]), cand[i + 1], gen.word(i + 1, 2, 3, [g.site]), x=base["fills"][0][0], y=base["fills"][0][1])
        if rm.count_sites(x, g) == 2:
            extras.append((x, cand[i]))
        if len(extras) == 3:
            break
    for n_extra in range(1, len(extras) + 1):
        pool = [mods[0]] + [e_[0] for e_ in extras[:n_extra]]
        for perm in itertools.permutations(range(len(pool))):
            ss = [vec] + [pool[i] for i in perm]
            for idmode in ("distinct", "same", "default", "odd"):
                run_mixed(st, "assembly", enz, ss, dict(family="assembly", enz=enz, strings=ss, leftovers=n_extra, ids=idmode))
                st.goal("several-modules-left-over")
    st.sample(dict(family="assembly", enz=enz, states=["valid", "too-short"], k=1))


def unit_assembly_corrupt(st, enz, tier):
    M, V = gen.generic_classes(enz)
    gen.prime([M, V])
    base = asm.base_scenario(enz, 2)
    vec, mods = asm.pieces_to_plasmids(base)
    strings = [vec] + mods
    alpha = ALPHABET if tier == "thorough" else "ACGTNRacgn"
    for which in range(3):
        s = strings[which]
        for i in range(len(s)):
            for ch in alpha:
                if ch == s[i]:
                    continue
                ss = list(strings)
                ss[which] = s[:i] + ch + s[i + 1:]
                run_mixed(st, "assembly-corrupt", enz, ss, dict(family="assembly", enz=enz, strings=ss, corrupted=[which, i, ch]))
    st.sample(dict(family="assembly", enz=enz, corrupted=[1, 3, "n"]))


def replay(scn, sub, st):
    if scn["family"] in ("blind", "near"):
        cls = gen.class_by_name(scn["cls"])
        gen.prime([cls])
        probe(st, sub, cls, scn["seq"], lambda: scn)
        if scn.get("container"):
            probe(st, sub, cls, scn["seq"], lambda: scn, container=scn["container"])
    else:
        run_mixed(st, sub, scn["enz"], scn["strings"], scn)
