"""C09 -- The product records its provenance and is a complete GenBank record.  (E1)

Assemblies: C01's base scenarios (enzyme menu x k = 1..3 x content schemes, with an unused module variant and
annotated inputs) x id/name menu; two-level assemblies through the kit vectors (products re-used as modules).
Oracle: identity and topology, comment, provenance tiling, verbatim provenance text, GenBank write + read.
"""
import io

from .. import asm, gen, kitgen, refmodel as rm, snapshot
from ..engine import HarnessError
from . import c11
from Bio import SeqIO
from Bio.Seq import Seq
from moclo.record import CircularRecord

ID = "C09"
TITLE = "provenance and GenBank completeness"
RULE = ("one scenario per (assembly, id/name choice); non-trivial when k >= 2, or inputs are annotated or rotated, or the assembly "
        "is two-level, or a non-default id is requested; distinct by construction")
ASSUMPTIONS = [
    "GenBank round trip compares locations by denoted nucleotides and effective strand (strand-less = forward), not by object equality (DESIGN 5.9)",
    "generated provenance features = type 'source', label 'source: <id>', plasmid qualifier naming an input of this assembly",
    "ids and names are GenBank-legal and at most 16 characters",
]
IDS = [None, ("A1", "A1"), ("prod_2x", "prod_2x"), ("ABCDEFGHIJKLMNOP", "ABCDEFGHIJKLMNOP"), ("pX1", "nameY"),
       ("LVL1_0002", "pVEC_kan-pMOD_prom-pMOD_cds"), ("gb|X.1|with.dots", "N" * 40), ("i" * 33, "a-24-characters-name-xyz"), ("1", "2")]


def bounds(tier):
    return dict(enzymes=["BsaI", "BbsI", "FokI", "BspD6I"] if tier == "quick" else "all enzyme geometries", k=[1, 2, 3], schemes=[0, 1],
                ids=[list(i) if i else "default" for i in IDS], variants=["plain", "annotated", "rotated", "with-unused-module", "renamed-after-use (same objects / deep copies renamed after a first assembly)"] + (["annotated participant at every rotation, each in turn"] if tier == "thorough" else []),
                two_level=["cidar", "ecoflex", "moclo"], two_level_entries=[1, 2, 3], cassette_rotations_before_reuse=[0, 3, "n/2"])


ID_STYLES = ["part_%02d", "araC-pBAD-%d", "kanR-cassette-v2-%d", "gb|X%d.1|", "m%d", "a-very-long-identifier-of-a-module-%02d", "p(%d)/x"]


def goals(tier):
    return ["default-id", "requested-id", "k=3", "annotated-inputs", "unused-module-in-comment", "two-level-nested-provenance",
            "genbank-roundtrip", "rotated-inputs", "long-chain-comment", "product-named-like-one-of-its-parts", "inputs-renamed-after-a-first-use", "participant-without-an-id", "accession-version-identifiers"]


def annotate(s, name):
    """a handful of features: plus, minus, strand-less, a join; spread over the record"""
    n = len(s)
    tab = [("misc_feature", [(1, 4, 1)]), ("CDS", [(2, 6, -1)]), ("misc_feature", [(n // 2, n // 2 + 3, None)]),
           ("CDS", [(n // 3, n // 3 + 2, 1), (n // 3 + 3, n // 3 + 5, 1)]), ("misc_feature", [(n - 4, n - 1, -1)]),
           ("source", [(0, n, 1)])]
    return [gen.mk_feature(parts, type=typ, fid="%s-f%d" % (name, i)) for i, (typ, parts) in enumerate(tab)]


def check_product(st, scn, prod, inputs, want_id, want_name, module_ids, vector_id, cutter_geometry=None):
    """inputs: {id: circular string} of THIS assembly"""
    ok = True
    if not isinstance(prod, CircularRecord):
        st.violation("identity", "product-is-not-a-circular-record", scn, "CircularRecord", type(prod).__name__)
        ok = False
    if prod.id != want_id or prod.name != want_name:
        st.violation("identity", "id-or-name-not-as-requested", scn, [want_id, want_name], [prod.id, prod.name])
        ok = False
    if str(prod.annotations.get("topology", "")).lower() != "circular":
        st.violation("identity", "topology-not-circular", scn, "circular", prod.annotations.get("topology"))
        ok = False
    com = prod.annotations.get("comment", "")
    text = "\n".join(com) if isinstance(com, (list, tuple)) else str(com)
    missing = [i for i in [vector_id] + list(module_ids) if i not in text]
    if missing:
        st.violation("comment", "comment-does-not-name-every-input", scn, [vector_id] + list(module_ids), text)
        ok = False
    n = len(prod.seq)
    seq = str(prod.seq)
    gen_feats = [f for f in prod.features if asm.is_generated_source(f) and asm.qual1(f, "plasmid") in inputs]
    # images of input features are excluded by construction: inputs never carry generated-looking features naming an input
    spans = sorted((int(f.location.start), int(f.location.end), asm.qual1(f, "plasmid")) for f in gen_feats)
    pos = 0
    tiled = True
    if cutter_geometry is not None:
        # identifiers of this assembly's inputs also occur among the inherited (inner) provenance features, so "generated"
        # cannot be told from "inherited" by name: demand instead, for every retained fragment located by the digestion
        # model, one source feature with exactly that span naming that input (these spans tile the product by construction)
        want = []
        for pid, src in inputs.items():
            fr = rm.site_free_fragment(src, cutter_geometry)
            if fr is None:
                continue
            a = (seq + seq).upper().find(fr["text"].upper())
            if 0 <= a and a + len(fr["text"]) <= n:
                want.append((a, a + len(fr["text"]), pid))
        have = set((int(f.location.start), int(f.location.end), asm.qual1(f, "plasmid")) for f in prod.features if asm.is_generated_source(f))
        missing = [w for w in want if w not in have]
        if len(want) != len(inputs) - len(scn.get("unused_inputs", [])) or sorted(w[:2] for w in want)[0][0] != 0:
            st.extra["collision-variant-not-evaluable"] += 1
        elif missing:
            st.violation("provenance", "retained-fragment-without-its-source-feature", scn, [list(w) for w in want], sorted(list(h) for h in have))
            ok = False
        spans = []
        tiled = True
        pos = n
    else:
        for a, b, pid in spans:
            if a != pos or b <= a:
                tiled = False
                break
            pos = b
    if cutter_geometry is not None:
        pass
    elif not spans or not tiled or pos != n:
        st.violation("provenance", "source-features-do-not-tile-the-product", scn, "tiling of [0,%d)" % n, [list(s) for s in spans])
        ok = False
    else:
        used = [pid for _, _, pid in spans]
        expect_n = scn.get("retained_fragments")
        if expect_n is not None and len(spans) != expect_n:
            st.violation("provenance", "not-one-source-feature-per-retained-fragment", scn, expect_n, used)
            ok = False
        for a, b, pid in spans:
            src = inputs[pid]
            if seq[a:b].upper() not in (src + src).upper() or (b - a) > len(src):
                st.violation("provenance", "source-feature-text-not-in-the-plasmid-it-names", scn, pid, seq[a:b])
                ok = False
                break
    # GenBank round trip
    try:
        buf = io.StringIO()
        SeqIO.write(prod, buf, "genbank")
        back = SeqIO.read(io.StringIO(buf.getvalue()), "genbank")
    except Exception as e:
        st.violation("genbank", "round-trip-raises-" + type(e).__name__, scn, "written and read", str(e)[:200])
        return False
    st.goal("genbank-roundtrip")
    if str(back.seq).upper() != seq.upper():
        st.violation("genbank", "round-trip-sequence-differs", scn, seq, str(back.seq))
        ok = False
    if str(back.annotations.get("topology", "")).lower() != "circular":
        st.violation("genbank", "round-trip-topology-not-circular", scn, "circular", back.annotations.get("topology"))
        ok = False

    def fkey(rec):
        out = []
        for f in rec.features:
            den = rm.denoted(snapshot.loc_parts(f.location), len(rec.seq))
            out.append((f.type, tuple(sorted((p, 1 if s in (None, 0) else s) for p, s in den))))
        return sorted(out)
    a, b = fkey(prod), fkey(back)
    if a != b:
        diff = [x for x in a if x not in b][:2] + [x for x in b if x not in a][:2]
        st.violation("genbank", "round-trip-features-differ", scn, len(a), [len(b), str(diff)[:300]])
        ok = False
    return ok


def run_single(st, scn):
    enz, k, scheme, variant, ids = scn["enz"], scn["k"], scn["scheme"], scn["variant"], scn["ids"]
    M, V = gen.generic_classes(enz)
    gen.prime([M, V])
    base = asm.base_scenario(enz, k, scheme=scheme, ovscheme=scheme)
    if base is None or not asm.well_formed(base)[0]:
        st.filtered += 1
        return None
    vec, mods = asm.pieces_to_plasmids(base)
    ver = (lambda j: ".%d" % (j + 1)) if variant == "versioned-ids" else (lambda j: "")      # ACCESSION.VERSION identifiers
    strings = {"vec-%s%s" % (enz, ver(0)): vec}
    for i, m in enumerate(mods):
        strings["mod%d-%s%s" % (i, enz, ver(i + 1))] = m
    if variant == "versioned-ids":
        st.goal("accession-version-identifiers")
    names = list(strings)
    recs = {}
    for j, (name, s) in enumerate(strings.items()):
        feats = annotate(s, name) if variant in ("annotated", "rotated") else []
        r = CircularRecord(Seq(s), id=name, name=name, features=feats, annotations={"topology": "circular"})
        if variant == "anonymous-participant" and j == (scn.get("anonymous", 0) % len(strings)):
            r = CircularRecord(Seq(s))            # a record that was never given an id (Biopython's placeholder)
        if variant == "rotated":
            rot = scn.get("rot")
            r = r >> ((3 + 2 * j) if rot is None else (rot[1] if j == rot[0] else 0))
        recs[name] = r
    if variant == "with-unused-module":
        g = gen.geometry_of(gen.enzyme(enz))
        # off-chain module: overhangs not on the chain and not conflicting with any start
        used = set(base["ovs"]) | set(rm.revcomp(o) for o in base["ovs"])
        cand = [w for w in gen.overhang_words(g.ov, min(4 ** g.ov // 2, 12), 3) if w not in used]
        if len(cand) < 2:
            st.filtered += 1
            return None
        extra = gen.mk_module(g, cand[0], gen.word(scheme, 9, 4, [g.site]), cand[1], gen.word(scheme + 1, 2, 3, [g.site]),
                              x=base["fills"][0][0], y=base["fills"][0][1])
        if rm.count_sites(extra, g) != 2:
            st.filtered += 1
            return None
        strings["extra-%s" % enz] = extra
        recs["extra-%s" % enz] = CircularRecord(Seq(extra), id="extra-%s" % enz, name="extra")
        st.goal("unused-module-in-comment")
    if variant == "anonymous-participant":
        # (the record is known by the id it actually has)
        anon = names[scn.get("anonymous", 0) % len(names)]
        recs = {(recs[n].id if n == anon else n): recs[n] for n in names}
        strings = {(recs_id if True else None): s_ for recs_id, s_ in zip(list(recs), [strings[n] for n in names])}
        names = list(strings)
        st.goal("participant-without-an-id")
    vname = names[0]
    mnames = [n for n in strings if n != vname]
    kw = {} if ids is None else dict(id=ids[0], name=ids[1])
    o = asm.run_assemble(V(recs[vname]), [M(recs[n]) for n in mnames], **kw)
    if o.kind != "product":
        st.violation("assembly", "assembly-fails-" + str(o.exc_name), scn, "product", o.brief())
        return None
    want = ("assembly", "assembly") if ids is None else tuple(ids)
    inputs = {n: str(recs[n].seq) for n in strings}
    check_product(st, dict(scn, retained_fragments=k + 1), o.record, inputs, want[0], want[1], mnames, vname)
    if variant == "renamed-after-use":
        # the very same record objects, renamed (and, for a copy, corrected) after they took part in an assembly, take part in
        # another one: the product must name what the inputs are called NOW
        import copy as _copy
        ren = {}
        for j, n_ in enumerate(strings):
            r2 = recs[n_] if j % 2 == 0 else _copy.deepcopy(recs[n_])
            r2.id = "re-" + n_
            r2.name = "re%d" % j
            ren["re-" + n_] = r2
        rv = "re-" + vname
        rm_ = [x for x in ren if x != rv]
        o2 = asm.run_assemble(V(ren[rv]), [M(ren[x]) for x in rm_], **kw)
        st.goal("inputs-renamed-after-a-first-use")
        if o2.kind != "product":
            st.violation("assembly", "assembly-of-renamed-inputs-fails-" + str(o2.exc_name), scn, "product", o2.brief())
            return None
        check_product(st, dict(scn, retained_fragments=k + 1, second_call="renamed"), o2.record, {x: str(ren[x].seq) for x in ren}, want[0], want[1], rm_, rv)
    return o


def units(tier):
    us = []
    enzs = ["BsaI", "BbsI", "FokI", "BspD6I"] if tier == "quick" else [n for n, _ in gen.enzymes()]
    for enz in enzs:
        for k in (1, 2, 3):
            us.append(("single", (enz, k)))
    for kit in ["cidar", "ecoflex", "moclo"]:
        us.append(("two-level", kit))
    us.append(("long-chain", "BsaI"))
    return us


def run_unit(unit, st, tier):
    kind, arg = unit
    if kind == "single":
        enz, k = arg
        for scheme in (0, 1):
            for variant in ("plain", "annotated", "rotated", "with-unused-module", "renamed-after-use", "anonymous-participant", "versioned-ids"):
                for ids in IDS:
                  for anon in (range(k + 1) if variant == "anonymous-participant" else [None]):
                    if variant == "anonymous-participant" and ids not in (IDS[0], IDS[1]):
                        continue
                    scn = dict(enz=enz, k=k, scheme=scheme, variant=variant, ids=list(ids) if ids else None)
                    if anon is not None:
                        scn["anonymous"] = anon
                    o = run_single(st, scn)
                    st.scenario("product" if o else "none", None)
                    if k >= 2 or variant != "plain" or ids:
                        st.nontrivial += 1
                    if o:
                        st.goal("default-id" if ids is None else "requested-id")
                        if k == 3:
                            st.goal("k=3")
                        if variant == "annotated":
                            st.goal("annotated-inputs")
                        if variant == "rotated":
                            st.goal("rotated-inputs")
        if tier == "thorough":
            # every rotation of every (annotated) participant in turn
            base = asm.base_scenario(enz, k)
            if base is not None and asm.well_formed(base)[0]:
                vec, mods = asm.pieces_to_plasmids(base)
                for which, s in enumerate([vec] + mods):
                    for r in range(1, len(s)):
                        scn = dict(enz=enz, k=k, scheme=0, variant="rotated", ids=None, rot=[which, r])
                        o = run_single(st, scn)
                        st.scenario("product" if o else "none", None)
                        st.nontrivial += 1
        st.sample(dict(enz=enz, k=k, scheme=0, variant="annotated", ids=["pX1", "nameY"]))
    elif kind == "long-chain":
        unit_long_chain(st, arg)
    else:
        kit = arg
        for n_entries in (1, 2, 3):
            for rot in (0, 3, "half"):
                for collide in (False, True):
                    scn = dict(two_level=kit, entries=n_entries, cassette_rotation=rot)
                    if collide:
                        scn["cassette_named_like_first_entry"] = True
                    run_two_level(st, scn)
                    st.scenario("two-level", None, calls=4)
                    st.nontrivial += 1
        st.sample(dict(two_level=kit, entries=2))


def unit_long_chain(st, enz):
    """k = 4..8 modules: the comment must still name every one of them, one provenance tile per fragment"""
    g = gen.geometry_of(gen.enzyme(enz))
    M, V = gen.generic_classes(enz)
    gen.prime([M, V])
    base = asm.base_scenario(enz, 2)
    words = gen.overhang_words(g.ov, 9, 2)
    forbid = [g.site]
    for k in range(4, 9):
        ovs = words[: k + 1]
        scn = dict(enz=enz, k=k, ovs=ovs, bodies=[gen.word(i, 3 + 5 * i, 3 + (i % 4), forbid) for i in range(k)],
                   mbbs=[gen.word(i + 1, 9 + 3 * i, 2 + (i % 3), forbid) for i in range(k)],
                   fills=[[gen.word(0, 3 + i, g.off, forbid), gen.word(0, 17 + i, g.off, forbid)] for i in range(k)],
                   vbb=base["vbb"], vph=base["vph"], vfill=base["vfill"])
        vec, mods = asm.pieces_to_plasmids(scn)
        if any(rm.count_sites(p, g) != 2 for p in [vec] + mods):
            st.filtered += 1
            continue
        # identifier styles x a pad that slides every identifier across every column of the comment line
        for style in ID_STYLES:
            for pad in range(0, 13):
                ids = [style % i for i in range(k)]
                ids[-1] = ids[-1] + "p" * pad                      # modules are passed in reverse order: this one is named first
                recs = [CircularRecord(Seq(m), id=ids[i], name="n%d" % i) for i, m in enumerate(mods)]
                vrec = CircularRecord(Seq(vec), id="backbone_vector", name="backbone_vector")
                order = list(reversed(range(k)))
                o = asm.run_assemble(V(vrec), [M(recs[i]) for i in order], id="chain%d" % k, name="chain%d" % k)
                sc = dict(long_chain=k, enz=enz, id_style=style, pad=pad)
                st.scenario("product" if o.kind == "product" else "none", None)
                st.nontrivial += 1
                if o.kind != "product":
                    st.violation("assembly", "assembly-fails-" + str(o.exc_name), sc, "product", o.brief())
                    continue
                inputs = {ids[i]: mods[i] for i in range(k)}
                inputs["backbone_vector"] = vec
                check_product(st, dict(sc, retained_fragments=k + 1), o.record, inputs, "chain%d" % k, "chain%d" % k, ids, "backbone_vector")
                st.goal("long-chain-comment")
    st.sample(dict(long_chain=6, enz=enz))


def run_two_level(st, scn):
    """re-run C11's two-level composition, then check the device product's provenance"""
    class Probe(object):
        pass
    from ..engine import Stats
    tmp = Stats(ID)
    collide = scn.get("cassette_named_like_first_entry", False)
    cids = ["e00", "e10"] if collide else ["cas0", "cas1"]
    o = c11.two_level(tmp, scn["two_level"], scn["entries"], scn, cassette_rotation=scn.get("cassette_rotation", 0), cassette_ids=cids)
    if o is None:
        st.violation("two-level", "two-level-assembly-did-not-complete", scn, "device product", sorted(tmp.violations))
        return
    prod = o.record
    if collide:
        inputs0, level1 = rebuild_inputs(scn, with_level1=True)
        inputs = {"e00": inputs0["cas0"], "e10": inputs0["cas1"], "dv": inputs0["dv"]}
        DV = gen.class_by_name(c11.TWO_LEVEL[scn["two_level"]]["device_vector"])
        check_product(st, dict(scn, retained_fragments=3), prod, inputs, "device", "device", ["e00", "e10"], "dv",
                      cutter_geometry=gen.geometry_of(DV.cutter))
        st.goal("product-named-like-one-of-its-parts")
        return
    inner = [f for f in prod.features if asm.is_generated_source(f) and asm.qual1(f, "plasmid") not in ("cas0", "cas1", "dv")]
    if inner:
        st.goal("two-level-nested-provenance")
    else:
        st.violation("two-level", "inner-provenance-features-lost", scn, "inherited source features naming the entries", [])
    # the inputs of THIS assembly: the two cassettes and the device vector; recover their strings from the product's own provenance
    # (the cassette records are not kept by c11.two_level, so rebuild them deterministically)
    inputs, level1 = rebuild_inputs(scn, with_level1=True)
    check_product(st, dict(scn, retained_fragments=3), prod, inputs, "device", "device", ["cas0", "cas1"], "dv")
    # nesting: every inner provenance feature lies inside exactly one outer one
    outer = [(int(f.location.start), int(f.location.end)) for f in prod.features if asm.is_generated_source(f) and asm.qual1(f, "plasmid") in inputs]
    seq = str(prod.seq).upper()
    named = set()
    for f in inner:
        a, b = int(f.location.start), int(f.location.end)
        if sum(1 for (x, y) in outer if x <= a and b <= y) != 1:
            st.violation("two-level", "inner-provenance-feature-not-nested-in-one-outer-feature", scn, outer, [a, b])
            break
        pid = asm.qual1(f, "plasmid")
        named.add(pid)
        src = level1.get(pid)
        if src is None:
            st.violation("two-level", "inner-provenance-feature-names-an-unknown-plasmid", scn, sorted(level1), pid)
            break
        if seq[a:b] not in (src + src).upper():
            st.violation("two-level", "inner-provenance-text-not-in-the-plasmid-it-names", scn, pid, [a, b, seq[a:b][:60]])
            break
    # (the cassette vectors' own provenance features overlap the stretch discarded at the device level and are rightly dropped,
    #  so the inner features are only required to name level-1 plasmids and to be faithful, not to name all of them)


def rebuild_inputs(scn, with_level1=False):
    """strings of the cassettes and the device vector of c11.two_level (same deterministic construction)"""
    kit, n_entries = scn["two_level"], scn["entries"]
    d = c11.TWO_LEVEL[kit]
    CV, E, C, DV = [gen.class_by_name(d[x]) for x in ("cassette_vector", "entry", "cassette", "device_vector")]
    outer = kitgen.OUTER_WORDS
    inner = kitgen.CHAIN_WORDS
    out = {}
    level1 = {}
    for ci in range(2):
        if d["outer"] == "same":
            down, up = outer[ci], outer[ci + 1]
            cv = kitgen.build_vector(CV, down, up, fill=ci, ph_len=5, variant=ci)
            chain = [down] + inner[: n_entries - 1] + [up]
        else:
            down, up = inner[0], inner[n_entries]
            cv = kitgen.build_vector(CV, down, up, fill=ci, ph_len=5, outer=(outer[ci], outer[ci + 1]), variant=ci)
            chain = inner[: n_entries + 1]
        mods = []
        for i in range(n_entries):
            body = gen.word(ci + i, 3 + 5 * i + 11 * ci, 3 + i + ci, kitgen.ALL_SITES)
            mods.append(kitgen.build_module(E, chain[i], chain[i + 1], body, variant=ci * 3 + i))
            level1["e%d%d" % (ci, i)] = mods[-1]
        level1["cv%d" % ci] = cv
        gg = rm.golden_gate(cv, mods, gen.geometry_of(CV.cutter))
        out["cas%d" % ci] = gg[1]
    dv = kitgen.build_vector(DV, outer[0], outer[2], fill=1, ph_len=6, variant=2) if DV.structure != gen.generic_classes("BbsI")[1].structure else None
    if dv is None:
        g2 = gen.geometry_of(DV.cutter)
        dv = gen.mk_vector(g2, outer[2], outer[0], gen.word(1, 60, 6, kitgen.ALL_SITES), gen.word(0, 40, 4, kitgen.ALL_SITES),
                           x=gen.word(0, 29, g2.off, kitgen.ALL_SITES), y=gen.word(0, 41, g2.off, kitgen.ALL_SITES))
    out["dv"] = dv
    if with_level1:
        return out, level1
    return out


def replay(scn, sub, st):
    if "long_chain" in scn:
        unit_long_chain(st, scn["enz"])
        return
    if "two_level" in scn:
        run_two_level(st, {k: v for k, v in scn.items() if k != "retained_fragments"})
    else:
        run_single(st, {k: v for k, v in scn.items() if k != "retained_fragments"})
