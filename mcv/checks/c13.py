"""C13 -- Rotation of a circular record is a lossless group action.  (E2, BFS to closure)

State: canonical observation of the live record (sequence, every feature's denoted nucleotides,
per-letter tracks, identifiers, annotations).  Transitions: `>> k` and `<< k` for every integer k in
[-2n-1, 2n+1], applied to *every* reached state.  The reachable set is the cyclic group (<= n states),
so closure is exhaustive; every edge is compared with the reference (list rotation + position shift).
"""
import json

from .. import gen, refmodel as rm, snapshot
from ..engine import HarnessError
from Bio.Seq import Seq
from moclo.record import CircularRecord

ID = "C13"
TITLE = "rotation is a lossless group action"
RULE = ("BFS over live records: one scenario per edge (state, operator, k); a scenario is non-trivial when "
        "k mod n != 0; distinct by construction (each edge of the explored graph is taken once)")
ASSUMPTIONS = [
    "by parametricity a word of pairwise distinct IUPAC letters stands for every word of its length (property text)",
    "a feature covering the whole circle is compared up to cyclic shift of its reading (the library keeps whole-length source features at [0,n))",
    "locations use exact positions; coordinates past the end are read modulo n",
    "a strand-less location is compared as a set of nucleotides (it has no reading direction)",
]
LETTERS = "ACGTRYSWKMBDHVN"
SLICE = 130


def bounds(tier):
    if tier == "quick":
        return dict(lengths=list(range(1, 11)) + [16], k_range="[-2n-1, 2n+1] plus +-(37n+3), +-(1000n+4), +-(5003n+1), +-(10^6+7), +-(2^40+1)", operators=[">>", "<<"],
                    feature_table="all simple (a,b,strand) + join menu + whole-length (n<=10); boundary menu for n=16",
                    spelling_pass="states = (rotation, the library's own spelling of every location); menu k in {1,2,n-1,n+1,-1,-3} x {>>,<<}; to closure")
    return dict(lengths=list(range(1, 16)) + [16, 23, 40], k_range="[-2n-1, 2n+1]", operators=[">>", "<<"],
                feature_table="all simple (a,b,strand) + join menu + whole-length (n<=15); boundary menu for n in {16,23,40}",
                spelling_pass="states = (rotation, the library's own spelling of every location); menu k in {1,2,n-1,n+1,-1,-3} x {>>,<<}; to closure")


def goals(tier):
    return ["closure-reached", "origin-spanning-feature", "past-the-end-location-produced", "negative-k", "k-larger-than-n",
            "whole-length-source", "minus-strand-join", "all-n-states-reached", "k-thousands-of-turns", "operand-unchanged-checked", "spelling-pass-closed", "edited-between-rotations"]


def word(n):
    if n <= len(LETTERS):
        return LETTERS[:n]
    base = "ACGTTGCA"   # periodic word: only the index track tells positions apart
    return "".join(base[i % len(base)] for i in range(n))


def table(n):
    t = gen.feature_table(n, boundary_only=n > 15)
    if n >= 6:
        # locations that mix a part on another record with local parts (only the local ones move with the record)
        t = t + [("mixedref_region", [(1, 3, 1)]), ("mixedref_region", [(0, 2, 1), (3, 5, 1)]), ("mixedref_region", [(n - 2, n, -1)])]
    return t


def units(tier):
    us = []
    for n in bounds(tier)["lengths"]:
        t = table(n)
        nsl = max(1, (len(t) + SLICE - 1) // SLICE)
        for s in range(nsl):
            us.append((n, s, nsl))
    return us


def space_size(tier):
    """independently computed number of edges: every one of the n rotation states x 2 operators x (4n+3) values of k, per graph"""
    return sum(n * 2 * (4 * n + 3 + 10) for (n, s, nsl) in units(tier))


def initial(n, s, nsl):
    tab = table(n)[s::nsl]
    feats = [(typ, parts, "f{}".format(i)) for i, (typ, parts) in enumerate(tab)]
    return dict(n=n, seq=word(n), feats=feats, idx=list(range(n)), txt="abcdefghijklmnopqrstuvwxyzABCDEFGHIJKLMNOPQRSTUVWXYZ"[:n] if n <= 52 else None)


def build(init):
    n = init["n"]
    feats = [gen.mk_feature(parts, type=typ, fid=fid) for (typ, parts, fid) in init["feats"]]
    la = {"idx": list(init["idx"]), "tup": tuple(100 + i for i in init["idx"])}
    if init["txt"]:
        la["txt"] = init["txt"]
    return CircularRecord(Seq(init["seq"]), id="rid", name="rname", description="rdesc", dbxrefs=["db:1"],
                          features=feats, annotations={"topology": "circular", "organism": "x", "keywords": ["a", "b"]},
                          letter_annotations=la)


def canon_den(den, n):
    den = [tuple(d) for d in den]
    if all(d[1] in (None, 0) for d in den):
        return sorted(den, key=lambda d: (d[0], len(d)))          # a strand-less location has no reading direction: compare as a set
    if len(den) == n and all(len(d) == 2 for d in den) and len(set(d[0] for d in den)) == n and n > 0:
        i = min(range(n), key=lambda j: den[j][0])
        den = den[i:] + den[:i]
    return den


def observe(rec, n):
    feats = []
    for f in rec.features:
        parts = snapshot.loc_parts(f.location)
        feats.append([f.type, f.id, json.dumps(snapshot._plain(dict(f.qualifiers)), sort_keys=True), canon_den(rm.denoted(parts, n), n)])
    feats.sort(key=lambda x: (x[1], x[0]))
    la = {k: (list(v) if not isinstance(v, str) else v) for k, v in rec.letter_annotations.items()}
    return dict(seq=str(rec.seq), feats=feats, la=la, id=rec.id, name=rec.name, description=rec.description,
                annotations=snapshot._plain(dict(rec.annotations)), dbxrefs=list(rec.dbxrefs))


def model(init, r):
    """Reference observation of `initial >> r`."""
    n = init["n"]
    r %= n
    feats = []
    for (typ, parts, fid) in init["feats"]:
        q = gen.qualifiers_for(fid)
        den = rm.rotate_denoted(rm.denoted(parts, n), n, r)
        feats.append([typ, fid, json.dumps(snapshot._plain(q), sort_keys=True), canon_den(den, n)])
    feats.sort(key=lambda x: (x[1], x[0]))
    la = {"idx": list(rm.rot_right(init["idx"], r)) if r else list(init["idx"])}
    la["tup"] = [100 + i for i in la["idx"]]
    if init["txt"]:
        la["txt"] = rm.rot_right(init["txt"], r)
    return dict(seq=rm.rot_right(init["seq"], r), feats=feats, la=la, id="rid", name="rname", description="rdesc",
                annotations=snapshot._plain({"topology": "circular", "organism": "x", "keywords": ["a", "b"]}), dbxrefs=["db:1"])


def rot_list(lst, r):
    n = len(lst)
    r %= n
    return lst[n - r:] + lst[:n - r] if r else list(lst)


rm.rot_right_list = rot_list


def apply(rec, op, k):
    return (rec >> k) if op == ">>" else (rec << k)


def compare(st, scn, obs, exp):
    ok = True
    if obs["seq"] != exp["seq"]:
        st.violation("rotate", "sequence", scn, exp["seq"], obs["seq"])
        ok = False
    if obs["la"] != exp["la"]:
        st.violation("rotate", "letter-annotations", scn, exp["la"], obs["la"])
        ok = False
    if obs["feats"] != exp["feats"]:
        o = {(f[1], f[0]): f for f in obs["feats"]}
        e = {(f[1], f[0]): f for f in exp["feats"]}
        if set(o) != set(e) or len(obs["feats"]) != len(exp["feats"]):
            st.violation("rotate", "feature-lost-or-invented", scn, sorted(map(str, set(e) - set(o))), sorted(map(str, set(o) - set(e))))
        else:
            for k in sorted(e):
                if o[k] != e[k]:
                    cause = "feature-qualifiers" if o[k][2] != e[k][2] else "feature-nucleotides"
                    st.violation("rotate", cause, dict(scn, feature=list(k)), e[k][3], o[k][3])
                    break
        ok = False
    for fld in ("id", "name", "description", "annotations", "dbxrefs"):
        if obs[fld] != exp[fld]:
            st.violation("rotate", "metadata-" + fld, scn, exp[fld], obs[fld])
            ok = False
    return ok


def run_unit(unit, st, tier):
    n, s, nsl = unit
    init = initial(n, s, nsl)
    ks = sorted(range(-2 * n - 1, 2 * n + 2), key=lambda k: (abs(k), k < 0))
    # amounts many times larger than the record (both signs): rotation must still be a function of k mod n
    ks += [x for big in (37 * n + 3, 1000 * n + 4, 5003 * n + 1, 10 ** 6 + 7, 2 ** 40 + 1) for x in (big, -big)]
    rec0 = build(init)
    obs0 = observe(rec0, n)
    if obs0 != model(init, 0):
        raise HarnessError("model and implementation disagree on the initial record n={}".format(n))
    # model-side coverage goals
    for (typ, parts, fid) in init["feats"]:
        if any(b > n for (a, b, _) in parts) or (len(parts) > 1 and parts[0][0] > parts[-1][0]):
            st.goal("origin-spanning-feature")
        if typ == "source" and parts == [(0, n, parts[0][2])]:
            st.goal("whole-length-source")
        if len(parts) > 1 and all(p[2] == -1 for p in parts):
            st.goal("minus-strand-join")
    # BFS: a state is a live record; keyed by the canonical observation; model state = total rotation
    key0 = snapshot.key(obs0)
    seen = {key0: (rec0, 0, [])}
    frontier = [key0]
    nedges = 0
    while frontier:
        nxt = []
        for key in frontier:
            rec, r, hist = seen[key]
            for op in (">>", "<<"):
                for k in ks:
                    scn = dict(n=n, table_slice=[s, nsl], history=hist, op=op, k=k)
                    try:
                        out = apply(rec, op, k)
                    except Exception as e:
                        st.violation("rotate", "raises-" + type(e).__name__, scn, "a record", "{}: {}".format(type(e).__name__, e))
                        st.scenario("raised", None)
                        continue
                    r2 = (r + k) % n if op == ">>" else (r - k) % n
                    obs = observe(out, n)
                    exp = model(init, r2)
                    compare(st, scn, obs, exp)
                    nedges += 1
                    nt = (k % n) != 0
                    st.scenario("identity" if not nt else "rotation", None, nodes=0)
                    if nt:
                        st.nontrivial += 1
                    if k < 0:
                        st.goal("negative-k")
                    if abs(k) > n:
                        st.goal("k-larger-than-n")
                    if abs(k) > 1000 * n:
                        st.goal("k-thousands-of-turns")
                    if any(pp[1] > n for f in out.features for pp in snapshot.loc_parts(f.location)):
                        st.goal("past-the-end-location-produced")
                    kk = snapshot.key(obs)
                    if kk not in seen:
                        seen[kk] = (out, r2, hist + [[op, k]])
                        nxt.append(kk)
            # rotating must not touch its operand: after every operator was applied to this state it still observes the same
            if snapshot.key(observe(rec, n)) != key:
                st.violation("rotate", "operand-modified-by-rotation", dict(n=n, table_slice=[s, nsl], history=hist, op=">>", k=1),
                             "operand unchanged", snapshot.diff(json.loads(key), observe(rec, n)))
            st.goal("operand-unchanged-checked")
            if len(seen) > n:
                break
        if len(seen) > n:
            # the rotation group of a record of length n has at most n elements: the search would not close
            st.violation("rotate", "more-reachable-states-than-rotations", dict(n=n, table_slice=[s, nsl], history=[], op="closure", k=0),
                         "<= %d states" % n, len(seen))
            st.caps.append("n={}: search stopped at {} states (> n)".format(n, len(seen)))
            break
        frontier = nxt
    st.states += len(seen)
    st.goal("closure-reached")
    if len(seen) == n or len(set(init["seq"])) < n:
        st.goal("all-n-states-reached")
    spelling_pass(st, init, rec0, n, s, nsl)
    edit_pass(st, init, n, s, nsl)
    st.extra["max_states_one_graph"] = max(st.extra["max_states_one_graph"], len(seen))
    st.sample(dict(n=n, table_slice=[s, nsl], history=[], op=">>", k=1 % max(n, 1), seq=init["seq"], features=len(init["feats"])))


def raw_spelling(rec):
    """how the library currently spells the locations (the same nucleotides can be written with past-the-end or negative
    coordinates, depending on the operations a record went through)"""
    return json.dumps(sorted(json.dumps([str(f.id), f.type, snapshot.loc_parts(f.location)]) for f in rec.features))


SPELL_KS = [1, 2, -1, -3]


def spelling_pass(st, init, rec0, n, s, nsl):
    """Merging states by what they *denote* is only sound if equal denotations have equal futures -- but the library's own
    spelling of a location depends on the path.  Second search: a state is (rotation, spelling of every location); every
    reached spelling gets the menu `>> k`, `<< k` for k in {1, 2, n-1, n+1, -1, -3}; to closure (a handful of states per
    graph).  Its edges are compared with the same model; they are counted as traces / transitions, not as scenarios of the
    declared space."""
    if n < 2:
        return
    ks = SPELL_KS + [n - 1, n + 1]
    seen = {(0, raw_spelling(rec0)): (rec0, [])}
    frontier = list(seen)
    cap = 6 * n + 6
    while frontier and len(seen) <= cap:
        nxt = []
        for key in frontier:
            rec, hist = seen[key]
            for op in (">>", "<<"):
                for k in ks:
                    scn = dict(n=n, table_slice=[s, nsl], history=hist, op=op, k=k)
                    try:
                        out = apply(rec, op, k)
                    except Exception as e:
                        st.violation("rotate", "raises-" + type(e).__name__, scn, "a record", "{}: {}".format(type(e).__name__, e))
                        continue
                    r2 = (key[0] + k) % n if op == ">>" else (key[0] - k) % n
                    compare(st, scn, observe(out, n), model(init, r2))
                    st.traces += 1
                    st.transitions += 1
                    st.extra["spelling_pass_edges"] += 1
                    k2 = (r2, raw_spelling(out))
                    if k2 not in seen:
                        seen[k2] = (out, hist + [[op, k]])
                        nxt.append(k2)
        frontier = nxt
    st.extra["spelling_pass_states"] += len(seen)
    if frontier:
        st.caps.append("n={}: spelling pass stopped at {} states".format(n, len(seen)))
    else:
        st.goal("spelling-pass-closed")


def edited(rec):
    """what a user may do to a record between two rotations: add a feature, rename it, annotate it"""
    rec.features.append(gen.mk_feature([(0, min(2, len(rec.seq)), 1)], type="misc_feature", fid="late9"))
    rec.id = "edited"
    rec.annotations["note-added-later"] = "x"
    return rec


def edit_pass(st, init, n, s, nsl):
    """A record that is itself the result of a rotation is edited and rotated again: the edit must be carried along (the second
    rotation acts on the record as it is now, not on what it was made from)."""
    if n < 3:
        return
    for a in sorted({0, 1, n // 2, n - 1}):
        for op in (">>", "<<"):
            for k in (1, 2, n - 1, n + 1, -1):
                scn = dict(n=n, table_slice=[s, nsl], history=[[">>", a]], op=op, k=k, edit=True)
                try:
                    rec = edited(build(init) >> a) if a else edited(build(init))
                    out = apply(rec, op, k)
                except Exception as e:
                    st.violation("rotate", "raises-" + type(e).__name__, scn, "a record", "{}: {}".format(type(e).__name__, e))
                    continue
                d = k if op == ">>" else -k
                exp = model(init, a + d)
                late = gen.mk_feature([(0, min(2, n), 1)], type="misc_feature", fid="late9")
                exp["feats"].append([late.type, late.id, json.dumps(snapshot._plain(dict(late.qualifiers)), sort_keys=True),
                                     canon_den(rm.rotate_denoted(rm.denoted([(0, min(2, n), 1)], n), n, d % n), n)])
                exp["feats"].sort(key=lambda x: (x[1], x[0]))
                exp["id"] = "edited"
                exp["annotations"] = snapshot._plain(dict({"topology": "circular", "organism": "x", "keywords": ["a", "b"]}, **{"note-added-later": "x"}))
                compare(st, scn, observe(out, n), exp)
                st.traces += 1
                st.transitions += 1
                st.extra["edit_pass_edges"] += 1
    st.goal("edited-between-rotations")


def replay(scn, sub, st):
    n = scn["n"]
    s, nsl = scn["table_slice"]
    if scn["op"] == "closure":
        run_unit((n, s, nsl), st, "quick")     # the whole search of this graph is the scenario
        return
    if scn.get("edit"):
        edit_pass(st, initial(n, s, nsl), n, s, nsl)
        return
    init = initial(n, s, nsl)
    rec = build(init)
    r = 0
    for op, k in scn["history"] + [[scn["op"], scn["k"]]]:
        rec = apply(rec, op, k)
        r = (r + k) % n if op == ">>" else (r - k) % n
    compare(st, dict(scn), observe(rec, n), model(init, r))
