"""C06 -- Typing verdicts do not depend on what was typed before.  (E2: explicit-state over histories)

State: the map {class -> pattern text of the compiled pattern it owns} (nothing else survives a typing
call).  Transitions: validate(A) = type A's own instance with A; define(D) = create a subclass at this
point of the history; query(B) = type every witness record with B.  Histories: every ordered pair
(validate A, query B) over all concrete kit classes and dynamically defined classes, with define
interleaved at every position; thorough adds every ordered triple inside each kit family.
Oracle: the answers of the last query equal the answers of the same query issued first in a fresh
interpreter (one subprocess per class).
"""
import gc
import itertools
import json
import os
import subprocess
import sys

from .. import gen, refmodel as rm
from ..engine import HarnessError
from Bio.Seq import Seq
from moclo.record import CircularRecord
from moclo.core._structured import StructuredRecord

ID = "C06"
TITLE = "typing verdicts do not depend on history"
RULE = ("one scenario per history (sequence of define/validate operations followed by a query of one class on all its "
        "witnesses); non-trivial when the history has at least one operation before the query on a different class; "
        "distinct by construction")
ASSUMPTIONS = [
    "the reported canonical state is the owned-pattern map of the StructuredRecord subclasses; verdicts do not rely on it",
    "fresh-interpreter answers (each witness typed first, in its own fork of a new process) are the reference; no hand-written expected values",
    "every history is executed in its own forked copy of a process that has never typed anything (no reset function is trusted)",
]
DYNAMIC = ["dyn-child-of-YTKEntry", "dyn-typed-child", "dyn-same-name-YTKPart1", "dyn-generic-BsaI-module",
           "dyn-structure-override", "dyn-vector-part", "dyn-grandchild-of-part", "dyn-blunt-cutter-child", "dyn-no-cutter-child",
           "dyn-3p-BtsI-part", "dyn-3p-BsrDI-part", "dyn-3p-BtsI-vector-part", "dyn-sig-upper-NN", "dyn-sig-lower-nn"]
UNUSABLE = {"dyn-blunt-cutter-child": "YTKEntry", "dyn-no-cutter-child": "YTKEntry"}     # witnesses are those of the parent


def bounds(tier):
    return dict(classes="all concrete kit classes + {} dynamically defined classes".format(len(DYNAMIC)),
                histories=("all ordered pairs (validate A; query B); define interleaved before / between / after" if tier == "quick"
                           else "all ordered pairs + all ordered triples (validate A; validate B; query C) inside each kit family"),
                spellings="own instance in lower case and in alternating case",
                witnesses="own instance, own instance rotated so that the match wraps, a long look-alike pair (clean / one extra cutter site in the middle), instances of every class of the same kit; "
                          "plain SeqRecords: own instance declared linear, wrapped instance declared linear / LINEAR, wrapped instance with topology Circular",
                look_alike_priming="every class with the same cutter and kind types its long clean / long illegal instance before the query")


def goals(tier):
    return ["parent-before-child", "child-before-parent", "generic-entry-before-typed-part", "define-after-parent-primed",
            "same-name-class", "accepting-and-rejecting-answers", "look-alike-record-typed-first", "live-primer-on-the-same-records"]


# ---------------------------------------------------------------------------------------------
# classes and witnesses (deterministic; the fresh-interpreter oracle rebuilds the same)

def define(name):
    """Create a dynamic class now (creation time is part of the history)."""
    from moclo.kits import ytk, cidar
    from moclo.core import modules, vectors
    from Bio.Restriction import BsaI
    if name == "dyn-child-of-YTKEntry":
        return type(str("MyEntry"), (ytk.YTKEntry,), {})
    if name == "dyn-typed-child":
        return type(str("MyPart"), (ytk.YTKPart, ytk.YTKEntry), {"signature": ("ACGT", "TTGA")})
    if name == "dyn-same-name-YTKPart1":
        return type(str("YTKPart1"), (ytk.YTKPart, ytk.YTKEntry), {"signature": ("GGGA", "CCCA")})
    if name == "dyn-generic-BsaI-module":
        return type(str("MyModule"), (modules.AbstractModule,), {"cutter": BsaI})
    if name == "dyn-structure-override":
        return type(str("MyEntryVector"), (cidar.CIDAREntryVector,),
                    {"structure": staticmethod(lambda: "GGTCTCN(ACGT)(NNGTCTTCN*GAAGACNN)(TTGA)NGAGACC")})
    if name == "dyn-vector-part":
        return type(str("MyVectorPart"), (ytk.YTKPart, ytk.YTKCassetteVector), {"signature": ("ACGT", "TTGA")})
    if name == "dyn-grandchild-of-part":
        return type(str("MyPart3"), (ytk.YTKPart3,), {"signature": ("TATG", "GGGG")})
    # children that cannot be used at all: whatever the library answers when they are asked first, it answers after any history
    if name == "dyn-blunt-cutter-child":
        from Bio.Restriction import EcoRV
        return type(str("MyBluntEntry"), (ytk.YTKEntry,), {"cutter": EcoRV})
    if name == "dyn-no-cutter-child":
        return type(str("MyCutterlessEntry"), (ytk.YTKEntry,), {"cutter": NotImplemented})
    # two parts whose signatures differ in the CASE of an ambiguity code only: `NN` is a wildcard, `nn` is read as the letters themselves
    if name in ("dyn-sig-upper-NN", "dyn-sig-lower-nn"):
        return type(str("MySig" + name[-2:]), (ytk.YTKPart, ytk.YTKEntry), {"signature": ("CCNN" if name.endswith("NN") else "CCnn", "GCTT")})
    # signature-typed parts over enzymes that leave 3' overhangs (no kit has one; two of them, so that one can come after the other)
    if name in ("dyn-3p-BtsI-part", "dyn-3p-BsrDI-part", "dyn-3p-BtsI-vector-part"):
        import Bio.Restriction as R
        from moclo.core import parts
        enz = getattr(R, name.split("-")[2])
        base = vectors.EntryVector if "vector" in name else modules.Entry
        return type(str("My3p" + name.split("-", 2)[2].replace("-", "")), (parts.AbstractPart, base), {"cutter": enz, "signature": ("AC", "GT") if "vector" not in name else ("GT", "AC")})
    raise KeyError(name)


def kit_names():
    return [c.__name__ for c in gen.kit_classes()]


def all_names():
    return kit_names() + DYNAMIC


def resolve(name, dyn):
    """class object for a name inside one history (dyn: dict of classes defined so far)"""
    if name in dyn:
        return dyn[name]
    return gen.class_by_name(name)


def family(name):
    if name.startswith("dyn-"):
        return "moclo.kits.cidar" if "override" in name else "moclo.kits.ytk"
    return gen.class_by_name(name).__module__


_inst = {}


def three_prime_text(name, body):
    """witness of a dyn-3p-* class, built from the enzyme geometry and the signature alone (the class is not asked for its
    structure: asking is part of the history)"""
    import Bio.Restriction as R
    g = gen.geometry_of(getattr(R, name.split("-")[2]))
    forbid = [g.site]
    x, y = gen.word(0, 3, g.off, forbid), gen.word(0, 17, g.off, forbid)
    if "vector" in name:
        return gen.mk_vector(g, "GT", "AC", body, gen.word(0, 47, 3, forbid), x=x, y=y)
    return gen.mk_module(g, "AC", body, "GT", gen.word(1, 31, 5, forbid), x=x, y=y)


def sig_case_text(body):
    """witness of the dyn-sig-* classes (a BsaI module CCAT ... GCTT), built without asking the classes for their structure"""
    g = gen.geometry_of(gen.enzyme("BsaI"))
    forbid = ["GGTCTC", "GAGACC"]
    return gen.mk_module(g, "CCAT", body, "GCTT", gen.word(1, 31, 5, forbid), x=gen.word(0, 3, g.off, forbid), y=gen.word(0, 17, g.off, forbid))


def own_instance(cls, name):
    if name.startswith("dyn-sig-"):
        return sig_case_text(gen.word(0, 9, 5, ["GGTCTC", "GAGACC"]))
    if name.startswith("dyn-3p-"):
        import Bio.Restriction as R
        return three_prime_text(name, gen.word(0, 9, 5, [getattr(R, name.split("-")[2]).site]))
    if name in UNUSABLE:
        cls, name = gen.class_by_name(UNUSABLE[name]), UNUSABLE[name]
    if name not in _inst:
        from . import c16
        _inst[name] = c16.kit_instances(cls)[0][0]
    return _inst[name]


_long = {}


def long_instance(cls, name, illegal):
    """instance of the class structure whose wildcard run is a 96-letter word; `illegal` puts one more cutter site in its middle
    (both spellings share their first 60 and last letters: look-alikes for anything that compares or caches by prefix)"""
    if name.startswith("dyn-sig-"):
        w = gen.long_word(96, seed=5, forbid=["GGTCTC", "GAGACC", "CGTCTC", "GAAGAC"])
        return sig_case_text((w[:66] + "GGTCTC" + w[72:]) if illegal else w)
    if name.startswith("dyn-3p-"):
        import Bio.Restriction as R
        site = getattr(R, name.split("-")[2]).site
        w = gen.long_word(96, seed=5, forbid=[site])
        return three_prime_text(name, (w[:66] + site + w[66 + len(site):]) if illegal else w)
    if name in UNUSABLE:
        cls, name = gen.class_by_name(UNUSABLE[name]), UNUSABLE[name]
    key = (name, illegal)
    if key not in _long:
        g = gen.geometry_of(cls.cutter)
        forbid = ["GGTCTC", "CGTCTC", "GAAGAC", g.site]
        w = gen.long_word(96, seed=5, forbid=forbid)
        if illegal:
            w = w[:66] + g.site + w[66 + len(g.site):]
        text, _ = gen.instantiate(cls.structure(), fill_scheme=0, star_text=w, forbid=forbid)
        _long[key] = text + gen.word(1, 50, 6, forbid)
    return _long[key]


def witnesses(name, cls):
    """list of (witness id, sequence)"""
    own = own_instance(cls, name)
    n = len(own)
    out = [("own", own), ("own-wrapped", rm.rot_right(own, n // 2)),
           ("own-long", long_instance(cls, name, False)), ("own-long-extra-site", long_instance(cls, name, True)),
           # the same texts handed over as plain SeqRecords: declared linear (the wrapped one cannot be read then), and circular
           # in another spelling
           ("lin:own", own), ("lin:own-wrapped", rm.rot_right(own, n // 2)), ("LIN:own-wrapped", rm.rot_right(own, n // 2)),
           ("sr:own-wrapped", rm.rot_right(own, n // 2)),
           # other spellings of the own instance (what is reported is the record's own text, whatever was typed before)
           ("own-lower", own.lower()), ("own-alternating", "".join(c.lower() if i % 2 else c for i, c in enumerate(own)))]
    fam = family(name)
    for other in gen.kit_classes():
        if other.__module__ == fam or (fam.endswith("plant") and other.__module__.endswith("moclo")) or \
                (fam.endswith("moclo") and other.__module__.endswith("plant")):
            if other.__name__ != name:
                out.append(("inst:" + other.__name__, own_instance(other, other.__name__)))
    return out


def answers(cls, wits, shared=None):
    """`shared`: record OBJECTS that an earlier operation of the history already typed (with another class); the query then
    wraps those very objects instead of equal new ones"""
    shared = shared or {}
    out = {}
    from Bio.SeqRecord import SeqRecord
    for wid, s in wits:
        plain = {"lin": "linear", "LIN": "LINEAR", "sr": "Circular"}.get(wid.split(":", 1)[0]) if ":" in wid else None
        if plain and not wid.startswith("inst:"):
            try:
                e = cls(SeqRecord(Seq(s), id="w", annotations={"topology": plain}))
                out[wid] = [True, str(e.overhang_start()), str(e.overhang_end())] if e.is_valid() else [False]
            except Exception as ex:
                out[wid] = ["raises", type(ex).__name__]
            continue
        try:
            e = cls(shared.get(wid) or CircularRecord(Seq(s), id="w"))
            v = e.is_valid()
            if v:
                out[wid] = [True, str(e.overhang_start()), str(e.overhang_end()), str(e.target_sequence().seq)]
            else:
                out[wid] = [False]
        except Exception as ex:
            out[wid] = ["raises", type(ex).__name__]
    return out


def validate(cls, name, which="own"):
    s = own_instance(cls, name) if which == "own" else long_instance(cls, name, which == "long-illegal")
    try:
        e = cls(CircularRecord(Seq(s), id="p"))
        if e.is_valid():
            e.overhang_start()
    except (ValueError, NotImplementedError, AttributeError, TypeError):
        pass            # a class that cannot be used at all (unusable cutter): the call itself is the history step


def cache_state():
    st = []
    seen = set()
    stack = [StructuredRecord]
    while stack:
        c = stack.pop()
        for s in c.__subclasses__():
            if id(s) not in seen:
                seen.add(id(s))
                stack.append(s)
                r = s.__dict__.get("_regex")
                if r is not None:
                    st.append((s.__module__, s.__name__, getattr(r, "pattern", repr(r))))
    return tuple(sorted(st))


# ---------------------------------------------------------------------------------------------
# fresh-interpreter oracle

_FRESH = {}


def fresh_answers_subprocess(names):
    """One new interpreter per class: the query is the first typing call of that process."""
    env = dict(os.environ)
    env["PYTHONHASHSEED"] = "0"
    procs = []
    out = {}
    names = list(names)
    maxp = 16
    i = 0
    running = []
    while i < len(names) or running:
        while i < len(names) and len(running) < maxp:
            p = subprocess.Popen([sys.executable, "-W", "ignore", "-m", "mcv.checks.c06", names[i]], env=env,
                                 stdout=subprocess.PIPE, stderr=subprocess.PIPE, cwd=os.path.dirname(os.path.dirname(os.path.dirname(os.path.abspath(__file__)))))
            running.append((names[i], p))
            i += 1
        name, p = running.pop(0)
        o, e = p.communicate(timeout=300)
        if p.returncode != 0:
            raise HarnessError("fresh oracle for {} failed: {}".format(name, e.decode()[-500:]))
        out[name] = json.loads(o.decode().strip().splitlines()[-1])
    return out


def fresh(names=None):
    names = all_names() if names is None else names
    need = [n for n in names if n not in _FRESH]
    if need:
        _FRESH.update(fresh_answers_subprocess(need))
    return _FRESH


# ---------------------------------------------------------------------------------------------

def histories_for(b, tier):
    """histories ending with a query of class b: lists of ops ('define', D) / ('validate', A)"""
    names = all_names()
    hs = [[]]
    for a in names:
        if a.startswith("dyn-"):
            hs.append([("define", a), ("validate", a)])
        else:
            hs.append([("validate", a)])
    # live primers: another class of the same kit (ancestors included) types the query's own witness record OBJECTS and stays referenced
    fam_b = family(b)
    for a in names:
        if a != b and not a.startswith("dyn-") and family(a) == fam_b:
            hs.append([("type-witnesses-and-keep", a)])
    # look-alike priming: a class with the same cutter and kind types a long record (clean / with an extra site) first
    try:
        cb = gen.class_by_name(b)
    except KeyError:
        cb = None
    if cb is not None:
        for a in kit_names():
            ca = gen.class_by_name(a)
            if ca.cutter is cb.cutter and gen.is_vector_class(ca) == gen.is_vector_class(cb) and ca.structure() == cb.structure():
                hs.append([("validate-long", a)])
                hs.append([("validate-long-illegal", a)])
    if b.startswith("dyn-"):
        # define interleaved: after the other class was primed (define-after) and before (define-before)
        out = []
        for h in hs:
            if any(op == ("define", b) for op in h):
                out.append(h)                              # b itself primed first
            else:
                out.append([("define", b)] + h)
                out.append(h + [("define", b)])
        hs = out
    return hs


_KEEP = []


def _history_body(hist, b):
    """executed in a forked child: nothing any earlier history did can be visible here"""
    dyn = {}
    shared = {}
    states = [cache_state()]
    for op, x in hist:
        if op == "define":
            dyn[x] = define(x)
        elif op == "validate":
            validate(resolve(x, dyn), x)
        elif op == "type-witnesses-and-keep":
            # class x types every witness record of the queried class (same ids, same sequences) and the entities STAY ALIVE
            kc = resolve(x, dyn)
            qc = resolve(b, dyn) if not b.startswith("dyn-") or b in dyn else None
            if qc is not None:
                for wid, s in witnesses(b, qc):
                    rec_ = CircularRecord(Seq(s), id="w")
                    if ":" not in wid or wid.startswith("inst:"):
                        shared[wid] = rec_          # the query will wrap this very object
                    e = kc(rec_)
                    try:
                        if e.is_valid():
                            e.overhang_start()
                    except Exception:
                        pass
                    _KEEP.append(e)
        else:
            validate(resolve(x, dyn), x, which="long" if op == "validate-long" else "long-illegal")
        states.append(cache_state())
    cls = resolve(b, dyn)
    wits = witnesses(b, cls)
    got = answers(cls, wits, shared)
    states.append(cache_state())
    return [hash(s) for s in states], got, [w for w, _ in wits]


def run_history(st, hist, b, fresh_b, scn_extra=None):
    """Every history runs in its own forked copy of a process that has never typed anything, so state kept anywhere
    (class attributes, module-level caches, ...) by an earlier history cannot mask or fake a difference."""
    from ..engine import isolated
    states, got, wids = isolated(_history_body, hist, b)
    scn = dict(history=[list(o) for o in hist], query=b)
    if scn_extra:
        scn.update(scn_extra)
    bad = [w for w in wids if got.get(w) != fresh_b.get(w)]
    if bad:
        w = bad[0]
        f, g = fresh_b.get(w), got.get(w)
        if f and g and f[0] is False and g[0] is True:
            cause = "accepts-after-history-what-it-rejects-when-fresh"
        elif f and g and f[0] is True and g[0] is False:
            cause = "rejects-after-history-what-it-accepts-when-fresh"
        else:
            cause = "reports-different-values-after-history"
        st.violation("history", cause, dict(scn, witness=w), f, g, note="{} witness(es) differ".format(len(bad)))
    return states, got


def units(tier):
    fresh()            # computed once in the parent, inherited by the workers
    us = [("pairs", b) for b in all_names()]
    if tier == "thorough":
        fams = {}
        for n in kit_names():
            f = family(n).split(".")[-1]
            f = "moclo+plant" if f in ("moclo", "plant") else f
            fams.setdefault(f, []).append(n)
        for f, members in sorted(fams.items()):
            for c in members:
                us.append(("triples", (f, c, members)))
    return us


def is_ancestor(a, b):
    try:
        ca, cb = gen.class_by_name(a), gen.class_by_name(b)
    except KeyError:
        return False
    return ca is not cb and issubclass(cb, ca)


def run_unit(unit, st, tier):
    kind, arg = unit
    fr = fresh()
    seen_states = set()
    if kind == "pairs":
        b = arg
        for hist in histories_for(b, tier):
            states, got = run_history(st, hist, b, fr[b])
            for s in states:
                seen_states.add(s)
            st.scenario("history-len-%d" % len(hist), None, calls=len(hist) + len(got))
            if any(op.startswith("validate-long") for op, x in hist):
                st.goal("look-alike-record-typed-first")
            if any(op == "type-witnesses-and-keep" for op, x in hist):
                st.goal("live-primer-on-the-same-records")
            others = [x for op, x in hist if (op.startswith("validate") or op == "type-witnesses-and-keep") and (x != b or op != "validate")]
            if others:
                st.nontrivial += 1
                a = others[0]
                if is_ancestor(a, b):
                    st.goal("parent-before-child")
                    if a.endswith("Entry") and hasattr(gen.class_by_name(b), "signature"):
                        st.goal("generic-entry-before-typed-part")
                if is_ancestor(b, a):
                    st.goal("child-before-parent")
            if b.startswith("dyn-") and hist and hist[-1] == ("define", b) and len(hist) > 1:
                st.goal("define-after-parent-primed")
            if b == "dyn-same-name-YTKPart1" or any(x == "dyn-same-name-YTKPart1" for _, x in hist):
                st.goal("same-name-class")
            vals = set(json.dumps(v[0]) for v in fr[b].values())
            if len(vals) >= 2:
                st.goal("accepting-and-rejecting-answers")
        st.sample(dict(history=[["validate", "YTKEntry"]], query=b))
    else:
        f, c, members = arg
        for a in members:
            for b2 in members:
                hist = [("validate", a), ("validate", b2)]
                states, got = run_history(st, hist, c, fr[c])
                for s in states:
                    seen_states.add(s)
                st.scenario("history-len-2", None, calls=2 + len(got))
                st.nontrivial += 1
        gc.collect()
    st.states += len(seen_states) - 1   # scenario() already counted one node per history
    st.extra["distinct_cache_states_max_per_unit"] = max(st.extra["distinct_cache_states_max_per_unit"], len(seen_states))


def replay(scn, sub, st):
    b = scn["query"]
    fr = fresh([b])
    run_history(st, [tuple(o) for o in scn["history"]], b, fr[b])


if __name__ == "__main__":
    # fresh-interpreter oracle: python -m mcv.checks.c06 <class name>
    name = sys.argv[1]
    dyn = {}
    if name.startswith("dyn-"):
        dyn[name] = define(name)
    cls = resolve(name, dyn)
    # every witness is typed in its own forked copy of this (never typing) process: the reference answer for a witness
    # must not depend on the witnesses typed before it either
    from mcv.engine import isolated
    out = {}
    for wid, s in witnesses(name, cls):
        out.update(isolated(answers, cls, [(wid, s)]))
    print(json.dumps(out))
