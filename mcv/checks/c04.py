"""C04 -- Reported overhangs and fragments are true restriction fragments of the cutter.  (E1)

Records: structure instances of every kit class (own, sibling and neighbouring-kit structures), each
unmodified, with one extra cutter site inserted at each of several places, and with every single-letter
substitution; every plasmid of the embedded registries; generic classes over every enzyme.
Every (class, record) pair the class ACCEPTS is checked against cut positions found by plain string
search from (site, offset, overhang length).
"""
from .. import asm, gen, refmodel as rm, regs
from ..engine import HarnessError
from Bio.Seq import Seq
from moclo.record import CircularRecord

ID = "C04"
TITLE = "reported overhangs and fragments are true restriction fragments"
RULE = ("one scenario per accepted (class, record, rotation); distinct by construction; non-trivial when the record is "
        "not the class's own unmodified instance at rotation 0")
ASSUMPTIONS = [
    "cut positions: top-strand cut `off` nt after a forward site, overhang window [cut, cut+ov); mirrored for reverse sites (literature geometry of BsaI, BsmBI, BbsI/BpiI; REBASE for others)",
    "the 'no third cut inside the target' clause applies to accepted module-kind records whose two cuts come from a forward site upstream and a reverse site downstream",
]


def bounds(tier):
    return dict(three_prime_cutters="signature-typed module and vector parts over BtsI, BsrDI, BseRI (3' overhangs): concrete and N signatures, two body lengths, all rotations",
                routes="accepted generic records (default lengths, 4 rotations) produced along: " + ", ".join(gen.ROUTES[1:]),
                linear_molecules="every rotation of the accepted generic records (default lengths) and of the accepted unmodified kit instances, declared linear "
                                 "(plain SeqRecord, topology linear / Linear / LINEAR / annotated): accepted only if readable without crossing the ends, with those overhangs",
                instances="every concrete kit class x fills {0,1} x star lengths {3,8}" if tier == "thorough" else "every concrete kit class x fill 0 x star lengths {3,8}",
                modifications="none; one extra site of the class cutter (both orientations) at 5 places; every single-letter substitution (3 alternatives) of the instance",
                classes="all concrete kit classes (every record is offered to every class) + generic classes over all enzymes",
                degenerate_sites="generic module/vector over every enzyme whose site has ambiguity codes (LpnPI, SgrTI, MspJI, AspBHI): near side = first/last expansion, far side = every ACGT word of the site length, 3 rotations",
                rotations=("all n for unmodified and site-inserted records, {0, n/3, n/2, n-1} for substitutions" if tier == "quick" else "all n"),
                registry=("every plasmid x every accepting class, structure window stride 3" if tier == "quick" else "every plasmid x every accepting class, structure window + stride n/64"))


def goals(tier):
    return ["accepts:" + c.__name__ for c in gen.kit_classes()] + [ "accepted-with-extra-site", "module-kind", "vector-kind", "234r-style", "neighbour-kit-structure-accepted",
            "mutated-letter-accepted", "registry-pair", "generic-pair", "degenerate-far-side-is-a-site", "degenerate-far-side-is-not-a-site", "linear-molecule-accepted", "linear-molecule-rejected", "record-produced-along-another-route", "three-prime-overhang-enzyme", "enzyme-cutting-inside-its-site"]


# ---------------------------------------------------------------------------------------------

def oracle(cls, s, ov_start, ov_end, target, placeholder):
    """-> (cause or None, detail); needs cut windows of cls.cutter in s"""
    g = gen.geometry_of(cls.cutter)
    n = len(s)
    ws = rm.windows(s, g)
    up = s.upper()
    vec = gen.is_vector_class(cls)
    ov_start, ov_end, target = ov_start.upper(), ov_end.upper(), target.upper()
    if len(ov_start) != g.ov or len(ov_end) != g.ov:
        return "overhang-length", [ov_start, ov_end]
    found = None
    shift = g.ov if g.three else 0
    for w1 in ws:
        if rm.circ_slice(up, w1[0], g.ov) != ov_start:
            continue
        for w2 in ws:
            if w2 is w1 or w2[0] == w1[0]:
                continue
            if rm.circ_slice(up, w2[0], g.ov) != ov_end:
                continue
            ln = (w2[0] - w1[0]) % n
            # module: target = [c1, c2) ; vector: target = [c_up, c_down) where start overhang = up
            # (5' cutters: c = start of the overhang window; 3' cutters: c = its end)
            if rm.circ_slice(up, w1[0] + shift, ln) == target:
                found = (w1, w2, ln)
                break
        if found:
            break
    if not found:
        # diagnose
        starts = [w for w in ws if rm.circ_slice(up, w[0], g.ov) == ov_start]
        ends = [w for w in ws if rm.circ_slice(up, w[0], g.ov) == ov_end]
        if not starts:
            return "overhang_start-is-not-a-cut-end", dict(windows=[[w[0], w[1]] for w in ws], ov_start=ov_start)
        if not ends:
            return "overhang_end-is-not-a-cut-end", dict(windows=[[w[0], w[1]] for w in ws], ov_end=ov_end)
        return "target-is-not-the-stretch-between-the-cuts", dict(target=target, windows=[[w[0], w[1]] for w in ws])
    w1, w2, ln = found
    style = "flanking"
    if not vec:
        if (w1[1], w2[1]) == (1, -1):
            for w3 in ws:
                if w3 is w1 or w3 is w2:
                    continue
                rel = (w3[0] - w1[0]) % n
                if 0 < rel < ln and not g.three:
                    # a position that carries the (degenerate) site in both orientations at once is a special family:
                    # Bio.Restriction reports one orientation per position, so the library's site screen miscounts
                    fw = set(w[2] for w in ws if w[1] == 1)
                    rv = set(w[2] for w in ws if w[1] == -1)
                    cause = "third-cut-inside-target"
                    if fw & rv:
                        cause += "-record-has-a-position-matching-the-site-in-both-orientations"
                    return cause, dict(cut=w3[0], target=[w1[0], w2[0]])
        else:
            style = "234r-style"
    if vec:
        ph = placeholder.upper()
        exp = rm.circ_slice(up, w2[0] + shift, n - ln)
        if len(ph) + len(target) != n:
            return "placeholder-and-target-do-not-cover-the-plasmid-once", dict(placeholder=len(ph), target=len(target), n=n)
        if ph != exp:
            if ph not in up + up:
                return "placeholder-not-contiguous", dict(placeholder=ph, expected=exp)
            return "placeholder-overlaps-target", dict(placeholder=ph, expected=exp)
    return None, style


def typed(cls, rec):
    """observation of an accepted record or None"""
    e = cls(rec)
    if not e.is_valid():
        return None
    return (str(e.overhang_start()), str(e.overhang_end()), str(e.target_sequence().seq),
            str(e.placeholder_sequence().seq) if gen.is_vector_class(cls) else None)


def check_pair(st, cls, s, scn, rot_list):
    """check cls on every rotation of s in rot_list; returns True when accepted at rotation 0"""
    acc0 = None
    for r in rot_list:
        sr = rm.rot_right(s, r) if r else s
        try:
            t = typed(cls, CircularRecord(Seq(sr), id="c4"))
        except Exception as e:
            st.violation("typing", "raises-" + type(e).__name__, dict(scn, rotation=r), "values", str(e)[:200])
            continue
        if r == 0:
            acc0 = t is not None
        if t is None:
            continue
        cause, detail = oracle(cls, sr, *t)
        st.scenario("accepted-" + ("vector" if gen.is_vector_class(cls) else "module"), None)
        if cause:
            st.violation("fragments", cause, dict(scn, rotation=r), detail, dict(ov_start=t[0], ov_end=t[1], target=t[2][:80], placeholder=(t[3] or "")[:80]))
        else:
            if detail == "234r-style":
                st.goal("234r-style")
            st.goal("vector-kind" if gen.is_vector_class(cls) else "module-kind")
        if r or scn.get("mod") or scn.get("cls") != scn.get("instance_of"):
            st.nontrivial += 1
    return acc0


def check_routes(st, cls, s, scn, rot_list):
    """the accepted record produced along every other route (rotated back by the library, reverse-complemented twice, through
    GenBank text, sequence assigned after a rotation / a reverse complement, made from a record that was edited later): what is
    reported must be fragments of what the record holds NOW"""
    for r in rot_list:
        sr = rm.rot_right(s, r) if r else s
        for route in gen.ROUTES[1:]:
            sc = dict(scn, rotation=r, route=route)
            try:
                rec = gen.produced(sr, route, "c4")
                now = str(rec.seq)
                t = typed(cls, rec)
            except Exception as e:
                st.violation("routes", "raises-" + type(e).__name__, sc, "values", str(e)[:200])
                continue
            st.scenario("route-" + ("accepted" if t else "rejected"), None, nodes=0)
            st.nontrivial += 1
            st.goal("record-produced-along-another-route")
            if t is None:
                st.violation("routes", "rejected-although-the-same-plasmid-is-accepted", sc, "accepted", "rejected")
                continue
            cause, detail = oracle(cls, now, *t)
            if cause:
                st.violation("routes", cause, sc, detail, dict(ov_start=t[0], ov_end=t[1], target=t[2][:80]))


def check_linear(st, cls, s, scn, rot_list):
    """The same texts declared to be LINEAR molecules (plain SeqRecords, every spelling of the annotation): a class that accepts
    one must report ends that exist in that molecule -- sites, spacers and overhangs read without crossing its ends."""
    mt = rm.Matcher(cls.structure())
    vec = gen.is_vector_class(cls)
    for r in rot_list:
        sr = rm.rot_right(s, r) if r else s
        lin = mt.search(sr, False)
        for pname, rec in gen.linear_presentations(sr, "c4"):
            sc = dict(scn, rotation=r, presentation=pname)
            try:
                e = cls(rec)
                t = (str(e.overhang_start()), str(e.overhang_end())) if e.is_valid() else None
            except Exception as ex:
                st.violation("linear", "raises-" + type(ex).__name__, sc, "values", str(ex)[:200])
                continue
            st.scenario("linear-accepted" if t else "linear-rejected", None, nodes=0)
            st.nontrivial += 1
            st.goal("linear-molecule-accepted" if t else "linear-molecule-rejected")
            if t is None:
                continue
            if lin is None:
                st.violation("linear", "accepted-although-the-structure-only-reads-across-the-ends", sc, "rejected", list(t))
            else:
                exp = (lin["groups"][3], lin["groups"][1]) if vec else (lin["groups"][1], lin["groups"][3])
                if (t[0].upper(), t[1].upper()) != (exp[0].upper(), exp[1].upper()):
                    st.violation("linear", "overhangs-are-not-the-ends-of-the-linear-molecule", sc, list(exp), list(t))


# ---------------------------------------------------------------------------------------------

def instances(cls, tier):
    from . import c16
    out = []
    for text, label in c16.kit_instances(cls):
        if tier == "quick" and not label.startswith("fill0"):
            continue
        out.append((text, label))
    return out


def modifications(s, g, tier):
    """-> list of (label, string)"""
    n = len(s)
    out = [(None, s)]
    places = sorted(set([0, n // 4, n // 2, (3 * n) // 4, n - 3]))
    for site, o in ((g.site, "+"), (g.rsite, "-")):
        for p in places:
            out.append(("site{}@{}".format(o, p), s[:p] + site + s[p:]))
    for i in range(n):
        for ch in "ACGT":
            if ch != s[i].upper():
                out.append(("sub{}{}".format(i, ch), s[:i] + ch + s[i + 1:]))
    return out


THREE_PRIME = ["BtsI", "BsrDI", "BseRI"]
_p3 = {}


def part3(enz, kind, sig):
    """signature-typed part over an enzyme that leaves 3' overhangs (only such classes can use these enzymes)"""
    key = (enz, kind, sig)
    if key not in _p3:
        import Bio.Restriction as R
        from moclo.core import parts, modules, vectors
        base = modules.Entry if kind == "module" else vectors.EntryVector
        _p3[key] = type(str("P3_{}_{}_{}".format(enz, kind, "_".join(sig))), (parts.AbstractPart, base), {"cutter": getattr(R, enz), "signature": sig})
    return _p3[key]


def unit_three_prime(st, enz, tier):
    import Bio.Restriction as R
    g = gen.geometry_of(getattr(R, enz))
    words = gen.overhang_words(g.ov, 4 if g.ov > 1 else 3, 2)
    forbid = [g.site]
    n_ok = 0
    for (o5, o3) in [(words[0], words[1]), (words[1], words[2]), (words[2], words[0])]:
        for blen in (2, 5):
            body = gen.word(0, 7 + blen, blen, forbid)
            x, y = gen.word(0, 3, g.off, forbid), gen.word(0, 17, g.off, forbid)
            mod = gen.mk_module(g, o5, body, o3, gen.word(1, 31, 5, forbid), x=x, y=y)
            vec = gen.mk_vector(g, o5, o3, gen.word(1, 61, blen + 2, forbid), gen.word(0, 47, 3, forbid), x=x, y=y)
            for kind, s, sigs in (("module", mod, [(o5, o3), ("N" * g.ov, o3), (o5, "N" * g.ov)]), ("vector", vec, [(o5, o3), ("N" * g.ov, "N" * g.ov)])):
                if rm.count_sites(s, g) != 2:
                    st.filtered += 1
                    continue
                for sig in sigs:
                    cls = part3(enz, kind, sig)
                    gen.prime([cls])
                    sc = dict(family="three-prime", enz=enz, kind=kind, signature=list(sig), seq=s)
                    if check_pair(st, cls, s, sc, range(len(s))):
                        n_ok += 1
                        st.goal("three-prime-overhang-enzyme")
                    else:
                        st.violation("typing", "three-prime-part-rejects-its-own-instance", sc, "accepted", "rejected")
    st.sample(dict(family="three-prime", enz=enz, kind="module", rotation=1))


def unit_inside(st, enz, tier):
    """generic module classes over enzymes that cut inside their own site (the overhang is part of the site)"""
    g = dict(gen.inside_cutters())[enz]
    M, V = gen.generic_classes(enz)
    gen.prime([M])
    for blen in (2, 6):
        body = gen.word(0, 7 + blen, blen, [g.site, g.rsite])
        s = g.site + body + g.rsite + gen.word(1, 31, 5, [g.site, g.rsite])
        if rm.count_sites(s, g) != 2:
            st.filtered += 1
            continue
        sc = dict(family="inside", enz=enz, cls=M.__name__, seq=s)
        if check_pair(st, M, s, sc, range(len(s))):
            st.goal("enzyme-cutting-inside-its-site")
        else:
            st.violation("typing", "generic-module-rejects-its-own-instance", sc, "accepted", "rejected")
    st.sample(dict(family="inside", enz=enz, rotation=1))


def three_prime_menu(tier):
    allg = gen.three_prime_enzymes()
    if tier == "thorough":
        return [n for n, _ in allg]
    # quick: the three classic ones, the first geometry with a 1-nt overhang and the one with the shortest site
    one = [n for n, g in allg if g.ov == 1][:1]
    short = sorted(allg, key=lambda t: (len(t[1].site), t[0]))[:1]
    return sorted(set(THREE_PRIME + one + [short[0][0]]))


def units(tier):
    us = [("three-prime", e) for e in three_prime_menu(tier)] + [("inside", n) for n, _ in gen.inside_cutters()]
    cls = gen.kit_classes()
    for c in cls:
        us.append(("instances", c.__name__))
    for name, g in gen.enzymes():
        us.append(("generic", name))
    for name, g in gen.degenerate_enzymes():
        for kind in ("module", "vector"):
            us.append(("degenerate", (name, kind)))
    rows = regs.table()
    step = 8 if tier == "quick" else 3
    for i in range(0, len(rows), step):
        us.append(("registry", (i, min(len(rows), i + step))))
    return us


def run_unit(unit, st, tier):
    kind, arg = unit
    if kind == "three-prime":
        return unit_three_prime(st, arg, tier)
    if kind == "inside":
        return unit_inside(st, arg, tier)
    allcls = gen.prime()
    names = {c.__name__ for c in allcls}
    if kind == "instances":
        src = gen.class_by_name(arg)
        g = gen.geometry_of(src.cutter)
        for text, label in instances(src, tier):
            for mod, s in modifications(text, g, tier):
                n = len(s)
                if tier == "thorough" or mod is None or mod.startswith("site"):
                    rots = range(n)
                else:
                    rots = sorted({0, n // 3, n // 2, n - 1})
                for cls in allcls:
                    # cheap pre-filter at rotation 0, then the full rotation list for accepted pairs
                    scn = dict(family="instances", instance_of=arg, instance=label, mod=mod, cls=cls.__name__, seq=s)
                    acc = check_pair(st, cls, s, scn, [0])
                    st.transitions += 1
                    if acc:
                        check_pair(st, cls, s, scn, [r for r in rots if r])
                        if mod is None:
                            check_linear(st, cls, s, dict(scn, family="instances-linear"), rots)
                        st.goal("accepts:" + cls.__name__)
                        if mod and mod.startswith("site"):
                            st.goal("accepted-with-extra-site")
                        if mod and mod.startswith("sub"):
                            st.goal("mutated-letter-accepted")
                        if cls.__module__ != src.__module__:
                            st.goal("neighbour-kit-structure-accepted")
        st.sample(dict(family="instances", instance_of=arg, instance="fill0-star3", mod=None, cls=arg, rotation=5))
    elif kind == "generic":
        enz = arg
        M, V = gen.generic_classes(enz)
        gen.prime([M, V])
        for lens in (None, {"body0": 2}, {"mbb0": 0}, {"vbb": 2}, {"vph": 0}):
            scn = asm.base_scenario(enz, 1, lens=lens)
            if scn is None or not asm.well_formed(scn)[0]:
                st.filtered += 1
                continue
            vec, mods = asm.pieces_to_plasmids(scn)
            for cls, s in ((M, mods[0]), (V, vec), (M, vec), (V, mods[0])):
                sc = dict(family="generic", enz=enz, cls=cls.__name__, seq=s, lens=lens)
                if check_pair(st, cls, s, sc, range(len(s))):
                    st.goal("generic-pair")
                    if lens is None:
                        check_linear(st, cls, s, dict(sc, family="generic-linear"), range(len(s)))
                        check_routes(st, cls, s, dict(sc, family="generic-routes"), sorted({0, 1, len(s) // 2, len(s) - 1}))
        st.sample(dict(family="generic", enz=enz, cls="GV_" + enz, rotation=2))
    elif kind == "degenerate":
        unit_degenerate(st, arg[0], arg[1], tier)
    else:
        from . import c02
        rows = regs.table()[arg[0]:arg[1]]
        for row in rows:
            s = row["seq"]
            n = len(s)
            for cls in allcls:
                sc = dict(family="registry", reg=row["reg"], id=row["id"], cls=cls.__name__)
                acc = check_pair(st, cls, s, sc, [0])
                st.transitions += 1
                if not acc:
                    continue
                st.goal("registry-pair")
                m = rm.Matcher(cls.structure()).search(s, True)
                if m is None:
                    continue
                win = c02.window(m["spans"], n)
                rots = win[::3] if tier == "quick" else sorted(set(win) | set(range(0, n, max(1, n // 64))))
                check_pair(st, cls, s, sc, [r for r in rots if r])
        if rows:
            st.sample(dict(family="registry", reg=rows[0]["reg"], id=rows[0]["id"], cls=rows[0]["cls"], rotation=0))


def unit_degenerate(st, enz, kind, tier):
    """Enzymes whose site has ambiguity codes: the near-side site is a concrete expansion, the far-side position holds
    EVERY word of the site's length over ACGT (most are not sites at all), everything else is A/T only so that no further
    site can arise.  Whatever the generic class accepts is checked against IUPAC-aware cut positions."""
    import itertools
    g = gen.geometry_of(gen.enzyme(enz))
    M, V = gen.generic_classes(enz)
    cls = M if kind == "module" else V
    gen.prime([cls])
    L = len(g.site)
    exps = ["".join(t) for t in itertools.product(*[rm.IUPAC[c] for c in g.site])]
    near_list = [exps[0], exps[-1]]
    words = ["".join(t) for t in itertools.product("ACGT", repeat=L)]
    at = "ATTATAATATTTAATTAAATATAT"
    x, y = at[: g.off], at[3: 3 + g.off]
    o5, o3 = "ATTA"[: g.ov] if g.ov <= 4 else "ATTAT", "TAAT"[: g.ov] if g.ov <= 4 else "TAATA"
    body, bb, ph = "TATTA", "AATAT", "TTAAT"
    for near in near_list:
        for w in words:
            if kind == "module":
                s = near + x + o5 + body + o3 + y + w + bb          # a module needs revcomp(site) where w stands
            else:
                s = o3 + bb + o5 + y + w + ph + near + x            # a vector: w stands where revcomp(site) is needed
            is_site = rm.iupac_match(g.rsite, w)
            n = len(s)
            for r in sorted({0, L + g.off + 1, n - 2}):
                scn = dict(family="degenerate", enz=enz, kind=kind, cls=cls.__name__, seq=s, far_word=w, near=near)
                acc = check_pair(st, cls, s, scn, [r])
                st.transitions += 1
            if is_site:
                st.goal("degenerate-far-side-is-a-site")
            else:
                st.goal("degenerate-far-side-is-not-a-site")
    st.sample(dict(family="degenerate", enz=enz, kind=kind, far_word=words[1], near=near_list[0], rotation=0))


def extra_coverage(tier, st):
    acc = sorted(g.split(":", 1)[1] for g in st.goals if g.startswith("accepts:"))
    missing = sorted({c.__name__ for c in gen.kit_classes()} - set(acc))
    return dict(classes_accepting_at_least_one_record=len(acc), classes_never_accepting=missing)


def replay(scn, sub, st):
    fam = scn["family"]
    if fam == "inside":
        cls = gen.generic_classes(scn["enz"])[0]
        gen.prime([cls])
        check_pair(st, cls, scn["seq"], {k: v for k, v in scn.items() if k != "rotation"}, [scn.get("rotation", 0)])
        return
    if fam == "three-prime":
        cls = part3(scn["enz"], scn["kind"], tuple(scn["signature"]))
        gen.prime([cls])
        check_pair(st, cls, scn["seq"], {k: v for k, v in scn.items() if k != "rotation"}, [scn.get("rotation", 0)])
        return
    cls = gen.class_by_name(scn["cls"])
    gen.prime([cls])
    s = regs.by_id(scn["reg"], scn["id"])["seq"] if fam == "registry" else scn["seq"]
    if fam.endswith("-routes"):
        check_routes(st, cls, s, {k: v for k, v in scn.items() if k not in ("rotation", "route")}, [scn.get("rotation", 0)])
        return
    if fam.endswith("-linear"):
        check_linear(st, cls, s, {k: v for k, v in scn.items() if k not in ("rotation", "presentation")}, [scn.get("rotation", 0)])
        return
    check_pair(st, cls, s, {k: v for k, v in scn.items() if k != "rotation"}, [scn.get("rotation", 0)])
