"""C07 -- Assembly is pure: inputs are left untouched, even when it fails.  (E2 + fault enumeration)

A world of shared record objects (vector, three chained modules, a same-start twin, an off-chain module, a
module with a wrong end, an invalid module, a vector with equal overhangs), with and without literature
citations, at rotation 0 and at a wrapping rotation.  Operations = assemble calls: successful (two argument
orders), warning, failing at every position of the chain (invalid vector, duplicate at map-building,
missing module after j consumed for j = 0..3, invalid module at j, an arbitrary exception raised by the
j-th fragment extraction / overhang query).  Every history up to the depth bound is executed on ONE world;
after every call every shared record is snapshotted, and the call's outcome is compared with the outcome of
the same call on a fresh world.
"""
import itertools

from .. import asm, gen, refmodel as rm, snapshot
from ..engine import HarnessError
from Bio.Seq import Seq
from Bio.SeqFeature import SeqFeature, FeatureLocation, Reference
from moclo.record import CircularRecord

ID = "C07"
TITLE = "assembly is pure, even when it fails"
RULE = ("one scenario per (world variant, history of operations); every prefix is checked; non-trivial when the history contains "
        "a failing or warning call or has length >= 2; distinct by construction")
ASSUMPTIONS = [
    "an absent reference list is equivalent to an empty one (property text)",
    "the state a call may leave behind lives in the shared record objects (deep snapshot) and in the entity objects reused across calls",
]
ENZ = "BsaI"


VARIANTS = ["cited", "plain", "cited-rotated", "plain-rotated", "cited-aligned", "plain-aligned", "cited-odd", "plain-odd",
            "cited-odd-aligned", "plain-odd-aligned", "cited-seqrecord"]


def bounds(tier):
    return dict(depth=3 if tier == "quick" else 4, variants=VARIANTS,
                operations=[o[0] for o in OPS], world="vector, m1..m3 (chain), twin of m3, off-chain module, wrong-end module, invalid module, vector with equal overhangs")


def goals(tier):
    return ["op-product", "op-warning", "op-InvalidSequence", "op-DuplicateModules", "op-MissingModule", "op-injected-exception",
            "cited-world", "rotated-world", "odd-world", "plain-seqrecord-world", "retry-after-failure", "origin-on-first-base-of-fragment", "op-UnusedModules"]


# ---------------------------------------------------------------------------------------------

def ref(i):
    r = Reference()
    r.title = "Title %d" % i
    r.authors = "Author %d" % i
    r.journal = "Journal %d" % i
    r.pubmed_id = str(1000 + i)
    if i % 4 == 1:
        # GenBank `REFERENCE n (bases 3 to 9)`: a base range shorter than any of the plasmids
        r.location = [FeatureLocation(2, 9)]
    elif i % 4 == 3:
        # ... and one longer than any product (the reference was made for a bigger construct)
        r.location = [FeatureLocation(0, 400)]
    return r


def feat(a, b, strand, typ, label, cite=None):
    q = {"label": [label]}
    if typ == "CDS":
        q["transl_except"] = ["(pos:5..7,aa:Sec)"]       # qualifiers that spell coordinates: they are the caller's text too
        q["anticodon"] = ["(pos:2..4,aa:Ala,seq:tgc)"]
    if cite:
        q["citation"] = ["[%d]" % c for c in cite]
    return SeqFeature(FeatureLocation(a, b, strand=strand), type=typ, id=label, qualifiers=q)


def build_world(variant):
    """-> dict(records={name: CircularRecord}, ents={name: entity})"""
    g = gen.geometry_of(gen.enzyme(ENZ))
    M, V = gen.generic_classes(ENZ)
    cited = variant.startswith("cited")
    odd = "odd" in variant.split("-")          # unusual but legal record contents set after construction (rotated unless aligned)
    aligned = variant.endswith("aligned")      # origin exactly on the first base of the fragment the library cuts out
    rotated = variant.endswith("rotated") or (odd and not aligned)
    base = asm.base_scenario(ENZ, 3)
    vec, mods = asm.pieces_to_plasmids(base)
    o = base["ovs"]
    L = len(g.site)
    t0 = L + g.off            # module: target starts here
    recs = {}

    def mk(name, s, feats, refs):
        ann = {"topology": "circular", "organism": "org-" + name}
        if refs:
            ann["references"] = refs
        from Bio.Seq import MutableSeq
        # in the `odd` worlds every second record holds a MutableSeq (an assembly that edits a sequence in place would show)
        seq = MutableSeq(s) if (odd and len(recs) % 2 == 1) else Seq(s)
        r = CircularRecord(seq, id=name, name=name, description="desc " + name, features=feats, annotations=ann)
        if rotated:
            r = r >> (len(s) - t0 - 2 if name != "v" else 2)      # origin inside the target / inside the backbone
        if odd:
            # what a user may legitimately do to a record before handing it over: an unusual spelling of the topology,
            # nested annotation values, per-letter annotations, cross references, string-valued qualifiers
            r.annotations["topology"] = "Circular" if len(recs) % 2 == 0 else "CIRCULAR"
            r.annotations["structured_comment"] = {"Assembly-Data": {"Method": ["a", "b"]}}
            r.annotations["keywords"] = ["k1", "k2"]
            r.letter_annotations["idx"] = list(range(len(r.seq)))
            r.dbxrefs.append("db:" + name)
            for f in r.features[:1]:
                f.qualifiers["note"] = "plain string " + name
            # a feature located on another sequence (GenBank `J00194.1:4..9`), and one with fuzzy ends
            r.features.append(SeqFeature(FeatureLocation(3, 9, strand=1, ref="J00194.1"), type="exon", id="remote-" + name, qualifiers={"label": ["remote"]}))
            r.features.append(gen.mk_feature([(1, 4, 1)], type="fuzzy_region", fid="fz-" + name))
        if variant.endswith("seqrecord"):
            # the same plasmids handed over as plain SeqRecords (whatever such a call does -- today it stops with an error --
            # the caller's records must come back untouched)
            from Bio.SeqRecord import SeqRecord as _SR
            r = _SR(r.seq, id=r.id, name=r.name, description=r.description, features=r.features, annotations=r.annotations)
        if aligned:
            # modules: origin on the first base of the upstream overhang; vectors: on the first base of the downstream overhang
            r = r >> ((len(s) - t0) if not name.startswith("v") else (len(s) - (g.ov + len(base["vbb"]))))
        recs[name] = r

    vb = len(base["vbb"])
    mk("v", vec,
       [feat(0, len(vec), 1, "source", "v-src"),
        feat(1, g.ov + vb - 1, 1, "misc_feature", "v-kept", [1] if cited else None),
        feat(g.ov + vb + g.ov + g.off + 1, g.ov + vb + g.ov + g.off + L + 2, -1, "misc_feature", "v-dropped", [2] if cited else None),
        feat(0, 3, -1, "CDS", "v-kept2", [1, 2] if cited else None)],
       [ref(1), ref(2)] if cited else None)
    b1 = len(base["bodies"][0])
    mk("m1", mods[0],
       [feat(t0 + 1, t0 + g.ov + b1 - 1, 1, "CDS", "m1-kept", [1] if cited else None),
        feat(len(mods[0]) - 2, len(mods[0]), 1, "misc_feature", "m1-dropped", [2] if cited else None)],
       [ref(3), ref(1)] if cited else None)
    mk("m2", mods[1], [feat(t0, t0 + g.ov + 1, -1, "misc_feature", "m2-kept")], None)
    mk("m3", mods[2], [feat(t0 + g.ov, t0 + g.ov + 2, 1, "misc_feature", "m3-kept")], [ref(4)] if cited else None)
    twin = gen.mk_module(g, o[2], "TTGCA", o[3], "CAT", x=base["fills"][2][0], y=base["fills"][2][1])
    mk("m3twin", twin, [feat(t0, t0 + 3, 1, "misc_feature", "tw-kept", [1] if cited else None)], [ref(5)] if cited else None)
    off = gen.mk_module(g, "GGGA", "ACCAT", "CCCA", "TAC", x=base["fills"][0][0], y=base["fills"][0][1])
    mk("mx", off, [feat(t0, t0 + 3, 1, "misc_feature", "mx-kept", [1] if cited else None)], [ref(6)] if cited else None)
    wrong = gen.mk_module(g, o[2], "GCATT", "TTTC", "ACA", x=base["fills"][2][0], y=base["fills"][2][1])
    mk("m3wrong", wrong, [feat(t0, t0 + 3, 1, "misc_feature", "wr-kept", [1] if cited else None)], [ref(7)] if cited else None)
    bad = mods[1][:2] + ("A" if mods[1][2] != "A" else "C") + mods[1][3:]      # site corrupted
    mk("m2bad", bad, [feat(t0, t0 + 3, 1, "misc_feature", "bad-f", [1] if cited else None)], [ref(8)] if cited else None)
    vbad = gen.mk_vector(g, o[0], o[0], base["vbb"], base["vph"], x=base["vfill"][0], y=base["vfill"][1])
    mk("vbad", vbad, [feat(1, 4, 1, "misc_feature", "vb-f", [1] if cited else None)], [ref(9)] if cited else None)
    ents = {n: (V if n.startswith("v") else M)(r) for n, r in recs.items()}
    return dict(records=recs, ents=ents)


class Injected(Exception):
    pass


_faulty = {}


def faulty_class(where):
    if where not in _faulty:
        M, V = gen.generic_classes(ENZ)

        def target_sequence(self):
            raise Injected("injected failure in target_sequence")

        def overhang_end(self):
            if getattr(self, "_armed", False):
                raise Injected("injected failure in overhang_end")
            return M.overhang_end(self)
        d = {"cutter": M.cutter}
        if where == "target":
            d["target_sequence"] = target_sequence
        else:
            d["overhang_end"] = overhang_end
        _faulty[where] = type(str("Faulty_" + where), (M,), d)
    return _faulty[where]


# (name, vector, modules, fault) ; fault = None | ("target", j) | ("overhang_end", j)
OPS = [
    ("ok", "v", ["m1", "m2", "m3"], None),
    ("ok-permuted", "v", ["m3", "m1", "m2"], None),
    ("ok-twin", "v", ["m1", "m2", "m3twin"], None),          # another valid chain: its product cites another set of references
    ("unused", "v", ["m1", "mx", "m2", "m3"], None),
    ("unused-warning-as-error", "v", ["m1", "mx", "m2", "m3"], ("warnings-as-errors", -1)),
    ("invalid-vector", "vbad", ["m1"], None),
    ("duplicate", "v", ["m1", "m2", "m3", "m3twin"], None),
    ("missing@0", "v", ["m2", "m3"], None),
    ("missing@1", "v", ["m1", "m3"], None),
    ("missing@2", "v", ["m1", "m2"], None),
    ("missing@3", "v", ["m1", "m2", "m3wrong"], None),
    ("invalid-module@1", "v", ["m1", "m2bad", "m3"], None),
    ("raise-target@0", "v", ["m1", "m2", "m3"], ("target", 0)),
    ("raise-target@1", "v", ["m1", "m2", "m3"], ("target", 1)),
    ("raise-target@2", "v", ["m1", "m2", "m3"], ("target", 2)),
    ("raise-overhang_end@1", "v", ["m1", "m2", "m3"], ("overhang_end", 1)),
]
OPMAP = {o[0]: o for o in OPS}


def perform(world, opname):
    """run one operation on the world's shared objects -> outcome summary (JSON-able)"""
    _, vname, mnames, fault = OPMAP[opname]
    ents = world["ents"]
    mods = [ents[m] for m in mnames]
    as_errors = bool(fault) and fault[0] == "warnings-as-errors"
    if as_errors:
        fault = None
    if fault:
        where, j = fault
        F = faulty_class(where)
        fm = F(world["records"][mnames[j]])
        if where == "overhang_end":
            fm._armed = False
            fm.is_valid()
            fm._armed = True
        mods[j] = fm
    o = asm.run_assemble(ents[vname], mods, id="prod", name="prod", warnings_as_errors=as_errors)
    if o.kind == "product":
        return dict(kind="product", unused=o.attrs["unused"], record=snapshot.record_snapshot(o.record))
    if o.kind == "internal-error" and isinstance(o.exc, Injected):
        return dict(kind="injected")
    return dict(kind=o.kind, exc=o.exc_name, attrs={k: v for k, v in o.attrs.items() if not k.endswith("_objs")})


def world_snapshot(world):
    return {n: snapshot.record_snapshot(r) for n, r in world["records"].items()}


_fresh = {}


def fresh_outcome(variant, opname):
    key = (variant, opname)
    if key not in _fresh:
        gen.prime(list(gen.generic_classes(ENZ)))
        _fresh[key] = perform(build_world(variant), opname)
    return _fresh[key]


def run_history(st, variant, hist):
    gen.prime(list(gen.generic_classes(ENZ)))
    world = build_world(variant)
    before = world_snapshot(world)
    bkey = snapshot.key(before)
    snaps = {bkey}
    for i, opname in enumerate(hist):
        scn = dict(variant=variant, history=list(hist[: i + 1]))
        out = perform(world, opname)
        after = world_snapshot(world)
        akey = snapshot.key(after)
        snaps.add(akey)
        if akey != bkey:
            d = snapshot.diff(before, after)
            rec = d.split(".")[1] if d and "." in d else "?"
            what = "citation" if "citation" in (d or "") else ("references" if "references" in (d or "") else ("features" if "features" in (d or "") else "other"))
            st.violation("inputs", "inputs-modified-after-{}-call-{}".format(out["kind"] if out["kind"] != "moclo-error" else out["exc"], what),
                         scn, "all inputs unchanged", d)
            return snaps, out
        exp = fresh_outcome(variant, opname)
        if snapshot.key(out) != snapshot.key(exp):
            st.violation("results", "call-{}-differs-from-first-call-on-fresh-copies".format(i + 1), scn,
                         _short(exp), _short(out), note=snapshot.diff(exp, out) or "")
            return snaps, out
    return snaps, None


def _short(o):
    if o.get("kind") == "product":
        return dict(kind="product", unused=o["unused"], seq=o["record"]["seq"], nfeatures=len(o["record"]["features"]))
    return o


def units(tier):
    us = []
    for variant in VARIANTS:
        for first in OPS:
            us.append((variant, first[0]))
    return us


def run_unit(unit, st, tier):
    variant, first = unit
    depth = bounds(tier)["depth"]
    names = [o[0] for o in OPS]
    allsnaps = set()
    for d in range(1, depth + 1):
        for rest in itertools.product(names, repeat=d - 1):
            hist = (first,) + rest
            snaps, _ = run_history(st, variant, hist)
            allsnaps |= snaps
            kinds = [fresh_outcome(variant, h)["kind"] for h in hist]
            st.scenario("history-depth-%d" % d, None, calls=len(hist) * 2, nodes=1)
            if d >= 2 or kinds[0] != "product" or hist[0] == "unused":
                st.nontrivial += 1
            if d >= 2 and kinds[0] != "product" and kinds[-1] == "product":
                st.goal("retry-after-failure")
    fo = fresh_outcome(variant, first)
    if fo["kind"] == "product":
        st.goal("op-warning" if fo["unused"] else "op-product")
    elif fo["kind"] == "injected":
        st.goal("op-injected-exception")
    elif fo["kind"] == "moclo-error":
        st.goal("op-" + ("InvalidSequence" if fo["exc"] in ("InvalidSequence", "IllegalSite") else fo["exc"]))
    else:
        st.goal("op-other-" + str(fo.get("exc")))
    if variant.startswith("cited"):
        st.goal("cited-world")
    if variant.endswith("rotated"):
        st.goal("rotated-world")
    if "odd" in variant.split("-"):
        st.goal("odd-world")
    if variant.endswith("seqrecord"):
        st.goal("plain-seqrecord-world")
    if variant.endswith("aligned"):
        st.goal("origin-on-first-base-of-fragment")
    st.extra["distinct_input_snapshots_max"] = max(st.extra["distinct_input_snapshots_max"], len(allsnaps))
    st.sample(dict(variant=variant, history=[first, "ok"]))


def extra_coverage(tier, st):
    return dict(distinct_input_snapshots=st.extra.get("distinct_input_snapshots_max", 0),
                note="states = nodes of the history tree; the number of distinct input snapshots must be 1 (that is the property)")


def replay(scn, sub, st):
    run_history(st, scn["variant"], tuple(scn["history"]))
