"""C11 -- Products of one level are valid modules of the next level.  (E1)

The eight (vector class, module class, next-level class) triples of the kits x vector instances of the
structure literal (2 fills x placeholder lengths {0,1,7}) x chains of 1..3 inserts x all rotations of the
vector and of the product; the product is typed with the next-level class and assembled into a next-level
vector.  Thorough adds two-level compositions (entries -> cassettes -> device).
"""
import itertools

from .. import asm, gen, kitgen, refmodel as rm
from ..engine import HarnessError
from Bio.Seq import Seq
from moclo.record import CircularRecord

ID = "C11"
TITLE = "products of one level are valid modules of the next"
RULE = ("one scenario per (triple, vector instance, chain, rotation of the vector, rotation of the product); non-trivial when a "
        "rotation is non-zero or the chain has >= 2 inserts; distinct by construction")
ASSUMPTIONS = [
    "inserts are >= 2 nt and contain no kit recognition site; vector instances carry exactly the designed sites (string search)",
    "YTK entry vector: the entry's target is the designed inner segment (type-specific overhang + template), DESIGN 5.10",
]


def bounds(tier):
    return dict(containers=gen.CONTAINERS, triples=[t["name"] for t in kitgen.TRIPLES], fills=[0, 1] if tier == "quick" else [0, 1, 2],
                placeholder_lengths=[0, 1, 7] if tier == "quick" else [0, 1, 2, 7, 15], chain=[1, 2, 3] if tier == "quick" else [1, 2, 3, 4],
                overhang_word_sets=1 if tier == "quick" else 3,
                vector_rotations="all n" if tier == "thorough" else "all n for fill 0 / placeholder 7, stride 5 otherwise",
                product_rotations="all n" if tier == "thorough" else "stride 3 + structure window",
                two_level="cidar, ecoflex, moclo: two cassettes from entries -> device" if tier == "thorough" else "cidar only")


def goals(tier):
    return ["triple:" + t["name"] for t in kitgen.TRIPLES] + ["chain-3", "empty-placeholder", "product-rotated", "next-level-assembly", "two-level", "inputs-in-another-container", "vector-entity-reused-with-other-inserts"]


_KEEP = []


def typed(cls, s):
    e = cls(CircularRecord(Seq(s), id="p"))
    if not e.is_valid():
        return None
    return (str(e.overhang_start()), str(e.overhang_end()), str(e.target_sequence().seq))


WORDSETS = [kitgen.CHAIN_WORDS, ["TTCA", "GGAC", "CATC", "AGCG", "CTAG"[::-1]], ["GCTT", "AATG", "TACT", "GGAG", "CGCT"]]


YTK_INNER = ["AACG" + t + "TATG" for t in ("", "A", "AC", "ACG", "ACGTCA")] + ["", "A", "AC", "ACGTA", "ACGTACG"]


def scenario_strings(t, fill, ph, k, variant=0, ytk_inner=None):
    """-> (vector string, [module strings], [module target texts], vector cls, module cls) or None"""
    V = gen.class_by_name(t["vector"])
    Mc = gen.class_by_name(t["module"])
    if t["outer"] == "ytk":
        if k != 1:
            return None
        down, up = "TC" + "GG", "GACC"
        vec = kitgen.build_vector(V, down, up, fill=fill, ph_len=ph, variant=variant)
        tmpl = gen.word(fill, 7, 6, kitgen.ALL_SITES)
        o5, o3 = "AACG", "TATG"
        if ytk_inner is not None:
            # whatever lies between the two spacer nucleotides, canonical (overhang + template + overhang) or not
            o5, tmpl, o3 = "", ytk_inner, ""
        mod = kitgen.build_ytk_product("TC", o5, tmpl, o3, variant=variant)
        if vec is None or mod is None:
            return None
        return vec, [mod], [down + "TCTC" + mod[len("CGTCTC") + 1 + 4 + 4: len("CGTCTC") + 1 + 4 + 4 + 1] + o5 + tmpl + o3 + mod[len("CGTCTCN") + 8 + 1 + 4 + len(tmpl) + 4] + "GA"], V, Mc
    words = WORDSETS[variant % len(WORDSETS)]
    ovs = words[: k + 1]
    outer = (kitgen.OUTER_WORDS[0], kitgen.OUTER_WORDS[1]) if t["outer"] == "adjacent" else None
    vec = kitgen.build_vector(V, ovs[0], ovs[k], fill=fill, ph_len=ph, outer=outer, variant=variant)
    if vec is None:
        return None
    mods, targets = [], []
    for i in range(k):
        body = gen.word(fill + i + variant, 5 + 9 * i, 2 + 3 * i + variant, kitgen.ALL_SITES)
        m = kitgen.build_module(Mc, ovs[i], ovs[i + 1], body, variant=variant + i)
        if m is None:
            return None
        mods.append(m)
        targets.append(ovs[i] + body)
    return vec, mods, targets, V, Mc


def check(st, scn):
    t = kitgen.triple(scn["triple"])
    built = scenario_strings(t, scn["fill"], scn["ph"], scn["k"], scn.get("variant", 0), scn.get("ytk_inner"))
    if built is None:
        st.filtered += 1
        return None
    vec, mods, targets, V, Mc = built
    N = gen.class_by_name(t["next"])
    NV = gen.class_by_name(t["next_vector"])
    gen.prime([V, Mc, N, NV])
    rv = scn.get("rot_vector", 0)
    cont = scn.get("container", "seq")
    v = V(gen.contained(rm.rot_right(vec, rv), cont, "vec"))
    ms = [Mc(gen.contained(m, cont, "ins%d" % i)) for i, m in enumerate(mods)]
    try:
        all_valid = v.is_valid() and all(m.is_valid() for m in ms)
    except Exception as e:
        st.violation("level", "typing-raises-" + type(e).__name__, scn, "verdicts", str(e)[:160])
        return None
    if not all_valid and cont != "seq":
        st.violation("level", "inputs-rejected-in-container-" + cont, scn, "valid", "invalid")
        return None
    if not all_valid:
        if rv == 0:
            st.filtered += 1
            st.extra["level-inputs-rejected"] += 1
            if scn.get("ytk_inner") is not None:
                st.goal("ytk-product-with-degenerate-inner-rejected")
            return None
        st.violation("level", "vector-rejected-under-rotation", scn, "valid", "invalid")
        return None
    o = asm.run_assemble(v, list(reversed(ms)))
    if o.kind != "product":
        st.violation("level", "level-assembly-fails-" + str(o.exc_name), scn, "product", o.brief())
        return None
    # C01's oracle for this assembly (the vector's cutter), analytic model on the strings
    gg = rm.golden_gate(vec, mods, gen.geometry_of(V.cutter))
    if gg[0] != "product":
        # the accepted vector instance is not cut by its own cutter where the class says (C04's business); what C11 asks
        # -- is the product a valid next-level module holding the inserts -- is still decided below
        st.extra["vector-instance-not-cut-as-typed"] += 1
    elif not rm.same_circle(o.seq.upper(), gg[1].upper()):
        st.violation("level", "level-product-differs-from-ligation-model", scn, gg[1], o.seq)
        return None
    prod = o.seq
    if scn.get("reuse_vector") and t["outer"] != "ytk":
        # the SAME vector entity takes other inserts that are filed under the same identifiers (variants of one design):
        # what comes out must hold the inserts supplied now
        words2 = WORDSETS[scn.get("variant", 0) % len(WORDSETS)][: scn["k"] + 1]
        ms2, tg2 = [], []
        for i in range(scn["k"]):
            body2 = gen.word(scn["fill"] + i + 3, 11 + 7 * i, 3 + 2 * i + scn.get("variant", 0), kitgen.ALL_SITES)
            m2 = kitgen.build_module(Mc, words2[i], words2[i + 1], body2, variant=scn.get("variant", 0) + i)
            if m2 is None:
                ms2 = None
                break
            ms2.append(Mc(gen.contained(m2, cont, "ins%d" % i)))
            tg2.append(words2[i] + body2)
        if ms2:
            oB = asm.run_assemble(v, list(reversed(ms2)))
            st.goal("vector-entity-reused-with-other-inserts")
            if oB.kind != "product":
                st.violation("level", "second-assembly-with-the-same-vector-entity-fails-" + str(oB.exc_name), scn, "product", oB.brief())
            elif "".join(tg2).upper() not in (oB.seq + oB.seq).upper():
                st.violation("level", "second-assembly-with-the-same-vector-entity-returns-other-inserts", scn, "".join(tg2), oB.seq)
    rp = scn.get("rot_product", 0)
    ps = rm.rot_right(prod, rp)
    obs = typed(N, ps)
    if obs is None:
        st.violation("next", "product-rejected-by-next-level-class" + ("-rotated" if rp else ""), scn, t["next"] + " accepts", "rejected")
        return None
    ovs, ove, tgt = obs
    insert = "".join(targets)
    if t["outer"] == "ytk" and scn.get("ytk_inner") is not None:
        pass     # accepted as an entry: nothing more is asked of a product whose inner part is not overhang + template + overhang
    elif t["outer"] == "ytk":
        # designed inner segment: type-specific overhang + template
        inner = targets[0][9: -7]
        if not tgt.upper().startswith("AACG") or inner.upper() not in tgt.upper() or ove.upper() != "TATG":
            st.violation("next", "ytk-entry-target-is-not-the-designed-inner-segment", scn, ["AACG", inner, "TATG"], [ovs, tgt, ove])
    elif insert.upper() not in tgt.upper():
        st.violation("next", "next-level-target-does-not-contain-the-insert", scn, insert, tgt)
        return None
    # assemble at the next level (k = 1) and compare with the ligation model for the next-level cutter
    if scn.get("next_assembly", True):
        nv = kitgen.build_vector(NV, ovs.upper(), ove.upper(), fill=1, ph_len=4) if not t["next_vector"].startswith("GV_") else None
        if t["next_vector"].startswith("GV_"):
            g2 = gen.geometry_of(NV.cutter)
            nv = gen.mk_vector(g2, ove.upper(), ovs.upper(), gen.word(1, 60, 6, kitgen.ALL_SITES), gen.word(0, 40, 4, kitgen.ALL_SITES),
                               x=gen.word(0, 29, g2.off, kitgen.ALL_SITES), y=gen.word(0, 41, g2.off, kitgen.ALL_SITES))
        if nv is None:
            st.extra["next-vector-not-built"] += 1
        else:
            nve = NV(CircularRecord(Seq(nv), id="nvec"))
            if not nve.is_valid():
                raise HarnessError("next-level vector instance rejected: {} {}".format(t["next_vector"], nv))
            o2 = asm.run_assemble(nve, [N(CircularRecord(Seq(ps), id="lvl"))])
            g2 = gen.geometry_of(N.cutter)
            gg2 = rm.golden_gate(nv, [ps], g2)
            st.goal("next-level-assembly")
            if gg2[0] != "product":
                st.extra["next-model-" + gg2[0]] += 1
            elif o2.kind != "product":
                st.violation("next", "next-level-assembly-fails-" + str(o2.exc_name), scn, "product", o2.brief())
            elif not rm.same_circle(o2.seq.upper(), gg2[1].upper()):
                st.violation("next", "next-level-product-differs-from-ligation-model", scn, gg2[1], o2.seq)
    return prod


def units(tier):
    us = []
    for t in kitgen.TRIPLES:
        for fill in ((0, 1) if tier == "quick" else (0, 1, 2)):
            for ph in ((0, 1, 7) if tier == "quick" else (0, 1, 2, 7, 15)):
                for variant in ((0,) if tier == "quick" else (0, 1, 2)):
                    us.append(("single", (t["name"], fill, ph, variant)))
    us.append(("two-level", "cidar"))
    if tier == "thorough":
        us.append(("two-level", "ecoflex"))
        us.append(("two-level", "moclo"))
    return us


def run_unit(unit, st, tier):
    kind, arg = unit
    if kind == "two-level":
        return unit_two_level(st, arg, tier)
    name, fill, ph, variant = arg
    t = kitgen.triple(name)
    for k in ((1, 2, 3) if tier == "quick" else (1, 2, 3, 4)):
        base = dict(triple=name, fill=fill, ph=ph, k=k, variant=variant, reuse_vector=True)
        prod = check(st, base)
        st.scenario("level-ok" if prod else "level-none", None, calls=4)
        if prod is None:
            continue
        st.goal("triple:" + name)
        for cont in gen.CONTAINERS[1:]:
            p2 = check(st, dict(base, container=cont))
            st.scenario("level-ok" if p2 else "level-none", None, calls=4)
            st.nontrivial += 1
            if p2:
                st.goal("inputs-in-another-container")
        # typed wrappers of the unrotated vector and of the unrotated product stay alive while their rotations are explored
        built0 = scenario_strings(t, fill, ph, k, variant)
        for cls_, s_ in ((gen.class_by_name(t["vector"]), built0[0]), (gen.class_by_name(t["next"]), prod)):
            e_ = cls_(CircularRecord(Seq(s_), id="alive"))
            try:
                e_.is_valid()
            except Exception:
                pass
            _KEEP.append(e_)
        if k == 3:
            st.goal("chain-3")
            st.nontrivial += 1
        if ph == 0:
            st.goal("empty-placeholder")
        built = scenario_strings(t, fill, ph, k, variant)
        nv, npd = len(built[0]), len(prod)
        full = tier == "thorough" or (fill == 0 and ph == 7)
        for rv in (range(1, nv) if full else range(1, nv, 5)):
            check(st, dict(base, rot_vector=rv, next_assembly=False))
            st.scenario("vector-rotated", None, calls=3)
            st.nontrivial += 1
        prots = range(1, npd) if tier == "thorough" else sorted(set(range(1, npd, 3)) | set(range(1, 12)) | set(range(max(1, npd - 12), npd)))
        for rp in prots:
            check(st, dict(base, rot_product=rp, next_assembly=(tier == "thorough" or rp % 7 == 1)))
            st.scenario("product-rotated", None, calls=3)
            st.nontrivial += 1
            st.goal("product-rotated")
    if t["outer"] == "ytk":
        # what lies between the spacers of a YTK product: canonical with templates of 0,1,2,3,6 nt, and short strings
        for inner in YTK_INNER:
            for rp in (0, 5):
                scn = dict(triple=name, fill=fill, ph=ph, k=1, variant=variant, ytk_inner=inner, rot_product=rp)
                check(st, scn)
                st.scenario("ytk-inner", None, calls=3)
                st.nontrivial += 1
    st.sample(dict(triple=name, fill=fill, ph=ph, k=2, rot_product=3))


TWO_LEVEL = {
    "cidar": dict(cassette_vector="CIDARCassetteVector", entry="CIDAREntry", cassette="CIDARCassette", device_vector="CIDARDeviceVector", device="CIDARDevice", outer="same"),
    "ecoflex": dict(cassette_vector="EcoFlexCassetteVector", entry="EcoFlexEntry", cassette="EcoFlexCassette", device_vector="EcoFlexDeviceVector", device="EcoFlexDevice", outer="adjacent"),
    "moclo": dict(cassette_vector="MoCloCassetteVector", entry="MoCloEntry", cassette="MoCloCassette", device_vector="MoCloDeviceVector", device=None, outer="adjacent"),
}


def two_level(st, kit, n_entries, scn, cassette_rotation=0, cassette_ids=None):
    """entries -> two cassettes -> device"""
    d = TWO_LEVEL[kit]
    CV, E, C, DV = [gen.class_by_name(d[x]) for x in ("cassette_vector", "entry", "cassette", "device_vector")]
    gen.prime([CV, E, C, DV] + ([gen.class_by_name(d["device"])] if d["device"] else []))
    outer = kitgen.OUTER_WORDS            # device-level junctions o0 -> o1 -> o2
    inner = kitgen.CHAIN_WORDS
    cassettes = []
    inserts_all = []
    for ci in range(2):
        if d["outer"] == "same":
            # the cassette vector's own overhangs double as the device-level overhangs
            down, up = outer[ci], outer[ci + 1]
            cv = kitgen.build_vector(CV, down, up, fill=ci, ph_len=5, variant=ci)
            chain = [down] + inner[: n_entries - 1] + [up]
        else:
            down, up = inner[0], inner[n_entries]
            cv = kitgen.build_vector(CV, down, up, fill=ci, ph_len=5, outer=(outer[ci], outer[ci + 1]), variant=ci)
            chain = inner[: n_entries + 1]
        if cv is None:
            return None
        mods, ins = [], ""
        for i in range(n_entries):
            body = gen.word(ci + i, 3 + 5 * i + 11 * ci, 3 + i + ci, kitgen.ALL_SITES)
            m = kitgen.build_module(E, chain[i], chain[i + 1], body, variant=ci * 3 + i)
            if m is None:
                return None
            mods.append(E(gen.contained(m, scn.get("container", "seq"), "e%d%d" % (ci, i))))
            ins += chain[i] + body
        cid = cassette_ids[ci] if cassette_ids else "cas%d" % ci
        o = asm.run_assemble(CV(gen.contained(cv, scn.get("container", "seq"), "cv%d" % ci)), mods, id=cid, name=cid)
        if o.kind != "product":
            st.violation("two-level", "cassette-assembly-fails-" + str(o.exc_name), scn, "product", o.brief())
            return None
        crec = o.record
        if cassette_rotation:
            # a product may be stored at any rotation before it is re-used
            crec = crec >> (len(crec) // 2 if cassette_rotation == "half" else cassette_rotation)
        ce = C(crec)
        if not ce.is_valid():
            st.violation("two-level", "cassette-product-rejected-by-next-level-class", scn, d["cassette"], "rejected")
            return None
        if ins.upper() not in str(ce.target_sequence().seq).upper():
            st.violation("two-level", "cassette-target-does-not-contain-the-inserts", scn, ins, str(ce.target_sequence().seq))
        cassettes.append(ce)
        inserts_all.append(ins)
    dv = kitgen.build_vector(DV, outer[0], outer[2], fill=1, ph_len=6, variant=2) if DV.structure != gen.generic_classes("BbsI")[1].structure else None
    if dv is None:
        g2 = gen.geometry_of(DV.cutter)
        dv = gen.mk_vector(g2, outer[2], outer[0], gen.word(1, 60, 6, kitgen.ALL_SITES), gen.word(0, 40, 4, kitgen.ALL_SITES),
                           x=gen.word(0, 29, g2.off, kitgen.ALL_SITES), y=gen.word(0, 41, g2.off, kitgen.ALL_SITES))
    dve = DV(gen.contained(dv, scn.get("container", "seq"), "dv"))
    try:
        dv_ok = dve.is_valid()
    except Exception as e:
        st.violation("two-level", "device-vector-typing-raises-" + type(e).__name__, scn, "a verdict", str(e)[:160])
        return None
    if not dv_ok and scn.get("container", "seq") != "seq":
        st.violation("two-level", "device-vector-rejected-in-container-" + scn["container"], scn, "valid", "invalid")
        return None
    if not dv_ok:
        raise HarnessError("device vector instance rejected ({})".format(kit))
    o = asm.run_assemble(dve, list(reversed(cassettes)), id="device", name="device")
    if o.kind != "product":
        st.violation("two-level", "device-assembly-fails-" + str(o.exc_name), scn, "product", o.brief())
        return None
    gg = rm.golden_gate(dv, [str(c.record.seq) for c in cassettes], gen.geometry_of(DV.cutter))
    if gg[0] == "product" and not rm.same_circle(gg[1].upper(), o.seq.upper()):
        st.violation("two-level", "device-product-differs-from-ligation-model", scn, gg[1], o.seq)
    for ins in inserts_all:
        if ins.upper() not in (o.seq + o.seq).upper():
            st.violation("two-level", "device-lost-an-insert", scn, ins, o.seq)
    if d["device"]:
        D = gen.class_by_name(d["device"])
        de = D(o.record)
        if not de.is_valid():
            st.violation("two-level", "device-product-rejected-by-next-level-class", scn, d["device"], "rejected")
        else:
            tgt = str(de.target_sequence().seq).upper()
            if not all(i.upper() in tgt for i in inserts_all):
                st.violation("two-level", "device-target-does-not-contain-the-inserts", scn, inserts_all, tgt)
    return o


def unit_two_level(st, kit, tier):
    for n_entries in (1, 2, 3):
        scn = dict(two_level=kit, entries=n_entries)
        o = two_level(st, kit, n_entries, scn)
        st.scenario("two-level-ok" if o else "two-level-none", None, calls=6)
        st.nontrivial += 1
        if o:
            st.goal("two-level")
        # every input of both levels handed over in another container (MutableSeq; features of every flavour + per-letter tracks)
        for cont in gen.CONTAINERS[1:]:
            o = two_level(st, kit, n_entries, dict(scn, container=cont))
            st.scenario("two-level-ok" if o else "two-level-none", None, calls=6)
            st.nontrivial += 1
            if o:
                st.goal("inputs-in-another-container")
    st.sample(dict(two_level=kit, entries=2))


def replay(scn, sub, st):
    if "two_level" in scn:
        two_level(st, scn["two_level"], scn["entries"], scn)
    else:
        check(st, scn)
