"""C03 -- Ambiguous or incomplete module sets never produce a plasmid.  (E1)

Every vector (vup, vdown) over an overhang alphabet A x every multiset of up to K modules
(start, end) in A^2 realised by distinct record objects x every argument permutation; the outcome
is compared with refmodel.assembly_outcome, a function of the overhang graph only.
"""
import itertools

from .. import asm, gen, refmodel as rm
from ..engine import HarnessError

ID = "C03"
TITLE = "outcome is a function of the overhang graph only"
RULE = ("every (enzyme, vector overhang pair, module multiset, permutation) is enumerated once; non-trivial when the "
        "multiset has >= 2 modules, or the outcome is an error, or a palindromic overhang is on the chain")
ASSUMPTIONS = [
    "the same module object is never passed twice; multisets are realised by distinct objects (DESIGN 5.2); record identifiers are distinct, shared, or absent",
    "when several failure reasons hold any admissible MoClo error is accepted (DESIGN 5.3)",
    "MissingModule.start_overhang is compared only when the walk is unambiguous (no two modules with equal starts)",
]
ALPHA = {
    "BpiI": ["ACGA", "TCGT", "GTAC", "TCGA", "CCAT", "ATGG"],   # w, rc(w), two palindromes, u, rc(u)
    "SapI": ["ACG", "CGT", "GAT", "ATC", "CCA"],                # w, rc(w), u, rc(u), unrelated (odd: no palindromes)
    "BspD6I": ["AC", "GT", "AT", "CG", "CA"],                   # ov=2: w, rc(w), two palindromes, unrelated
}


FOREIGN = {"BpiI": "SapI", "SapI": "BpiI", "BspD6I": "BpiI"}      # enzyme of the extra module in mode `foreign` (other overhang length)


def bounds(tier):
    if tier == "quick":
        return dict(modes="k<=2 spaces: ids distinct / shared / default, identical twins, fully annotated participants, participants stored rotated and half of them in lower case; "
                          "k=3: distinct, twins, and shared / default ids where two modules are left over",
                    spaces=[dict(enz="BpiI", words=5, kmax=2), dict(enz="BpiI", words=4, kmax=3), dict(enz="SapI", words=5, kmax=2),
                            dict(enz="BspD6I", words=4, kmax=2)])
    return dict(spaces=[dict(enz="BpiI", words=6, kmax=2), dict(enz="BpiI", words=5, kmax=3),
                        dict(enz="SapI", words=5, kmax=2), dict(enz="SapI", words=5, kmax=3),
                        dict(enz="BspD6I", words=5, kmax=2), dict(enz="BspD6I", words=5, kmax=3)])


def goals(tier):
    return ["three-modules", "records-sharing-an-id", "annotated-participants", "rotated-and-respelled-participants", "anonymous-plasmids-of-equal-length", "module-of-another-enzyme-left-over", "several-unused-modules-sharing-an-id", "identical-sequence-twins", "product", "error-InvalidSequence", "error-DuplicateModules", "error-MissingModule", "palindromic-start-on-chain",
            "self-loop-module", "unused-module", "revcomp-starts", "equal-starts", "several-reasons"]


def units(tier):
    us = []
    for si, sp in enumerate(bounds(tier)["spaces"]):
        A = ALPHA[sp["enz"]][: sp["words"]]
        for vup in A:
            for vdown in A:
                us.append((si, vup, vdown))
    return us


def space_size(tier):
    import math
    total = 0
    for sp in bounds(tier)["spaces"]:
        w = sp["words"]
        m = w * w
        per_vec = 0
        for k in range(1, sp["kmax"] + 1):
            # multisets of size k over m module types, each with all k! orders of distinct objects
            modes = idmodes(sp, k)
            per_vec += math.comb(m + k - 1, k) * math.factorial(k) * len([x for x in modes if x != "twins"])
            if "twins" in modes:
                # multisets with at least one repeated module type
                per_vec += (math.comb(m + k - 1, k) - math.comb(m, k)) * math.factorial(k)
        total += w * w * per_vec
        if sp["kmax"] >= 3:
            # k = 3: the graphs for which the model predicts a product with two modules left over are repeated with shared / absent ids
            A = ALPHA[sp["enz"]][:w]
            types = [(s, e) for s in A for e in A]
            for vup in A:
                for vdown in A:
                    for multiset in itertools.combinations_with_replacement(range(len(types)), 3):
                        if several_left_over(vup, vdown, [types[i] for i in multiset]):
                            total += math.factorial(3) * 2
    return total


def several_left_over(vup, vdown, mods):
    m = rm.assembly_outcome(vup, vdown, [tuple(x) for x in mods])
    return m["kind"] == "product" and len(m["unused"]) >= 2


# ---------------------------------------------------------------------------------------------

_cache = {}


def mod_string(enz, s, e, idx):
    """module plasmid with overhangs (s, e); idx makes body and backbone distinct per object"""
    key = (enz, s, e, idx)
    if key not in _cache:
        g = gen.geometry_of(gen.enzyme(enz))
        out = None
        for attempt in range(12):
            sh = attempt * 3 + idx * 11
            body = gen.word(idx, 5 + sh, 4 + idx, [g.site])
            bb = gen.word(idx + 1, 23 + sh, 3 + idx, [g.site])
            x = gen.word(0, 1 + sh, g.off, [g.site])
            y = gen.word(0, 9 + sh, g.off, [g.site])
            cand = gen.mk_module(g, s, body, e, bb, x=x, y=y)
            if rm.count_sites(cand, g) == 2:
                out = (cand, body)
                break
        _cache[key] = out
    return _cache[key]


def vec_string(enz, vup, vdown):
    key = (enz, "v", vup, vdown)
    if key not in _cache:
        g = gen.geometry_of(gen.enzyme(enz))
        out = None
        for attempt in range(12):
            sh = attempt * 3
            bb = gen.word(1, 40 + sh, 6, [g.site])
            ph = gen.word(0, 52 + sh, 4, [g.site])
            x = gen.word(1, 2 + sh, g.off, [g.site])
            y = gen.word(1, 13 + sh, g.off, [g.site])
            cand = gen.mk_vector(g, vup, vdown, bb, ph, x=x, y=y)
            if rm.count_sites(cand, g) == 2:
                out = (cand, bb)
                break
        _cache[key] = out
    return _cache[key]


def evaluate(st, scn):
    """scn: dict(enz, vup, vdown, mods=[[s,e],..] in multiset order, perm=[..])"""
    enz, vup, vdown = scn["enz"], scn["vup"], scn["vdown"]
    mods = [tuple(m) for m in scn["mods"]]
    perm = scn["perm"]
    vs = vec_string(enz, vup, vdown)
    if scn.get("twins") == "identical":
        # the same part supplied twice: modules of equal type are distinct objects wrapping the very same sequence
        first = {}
        ms = [mod_string(enz, s, e, first.setdefault((s, e), i)) for i, (s, e) in enumerate(mods)]
    else:
        ms = [mod_string(enz, s, e, i) for i, (s, e) in enumerate(mods)]
    if vs is None or any(m is None for m in ms):
        st.filtered += 1
        return None
    model = rm.assembly_outcome(vup, vdown, mods)
    M, V = gen.generic_classes(enz)
    idmode = scn.get("ids", "distinct")
    v = V(gen.crec(vs[0], "vec"))
    if idmode == "anonymous":
        # what a script that builds everything in memory does: no record has an id, and all plasmids happen to have the same
        # length (the shorter ones are padded with A's at the end of their backbone, which cannot complete a site)
        from Bio.Seq import Seq as _Seq
        from moclo.record import CircularRecord as _CR
        g_ = gen.geometry_of(gen.enzyme(enz))
        L_ = max([len(vs[0])] + [len(m[0]) for m in ms])
        pv = 2 * g_.ov + len(vs[1]) + g_.off + len(g_.site)          # inside the placeholder, right after the first site
        vpad = vs[0][:pv] + "A" * (L_ - len(vs[0])) + vs[0][pv:]
        mpads = [m[0] + "A" * (L_ - len(m[0])) for m in ms]            # at the end of the backbone
        if any(rm.count_sites(p_, g_) != 2 for p_ in [vpad] + mpads):
            st.filtered += 1
            return None
        v = V(_CR(_Seq(vpad)))
        ents = [M(_CR(_Seq(p_))) for p_ in mpads]
    elif idmode == "rotated":
        # every participant stored at another rotation (modules: origin in the middle of the record, which is inside the
        # cassette for these short plasmids; vector: origin inside its first overhang), lower-case for odd module indices
        v = V(gen.crec(rm.rot_right(vs[0], len(vs[0]) - 2), "vec"))
        ents = [M(gen.crec(rm.rot_right(m[0] if i % 2 == 0 else m[0].lower(), len(m[0]) // 2), "mod%d" % i)) for i, m in enumerate(ms)]
    elif idmode == "decorated":
        v = V(gen.contained(vs[0], "annotated", "vec"))
        ents = [M(gen.contained(m[0], "annotated", "mod%d" % i)) for i, m in enumerate(ms)]
    elif idmode == "foreign":
        # one more module, released by ANOTHER enzyme whose sticky ends have another length (so it can pair with nothing): the
        # overhang graph says it is simply left over -- or that the outcome is what it is without it
        fenz = FOREIGN[enz]
        fw = ALPHA[fenz]
        fm = mod_string(fenz, fw[0], fw[2], 7)
        if fm is None:
            st.filtered += 1
            return None
        FM = gen.generic_classes(fenz)[0]
        ents = [M(gen.crec(m[0], "mod%d" % i)) for i, m in enumerate(ms)] + [FM(gen.crec(fm[0], "foreign"))]
        mods = mods + [(fw[0], fw[2])]
        ms = ms + [fm]
        model = rm.assembly_outcome(vup, vdown, mods)
        perm = (list(perm) + [len(mods) - 1]) if sum(perm) % 2 == 0 else ([len(mods) - 1] + list(perm))
    elif idmode == "distinct":
        ents = [M(gen.crec(m[0], "mod%d" % i)) for i, m in enumerate(ms)]
    elif idmode == "same":
        ents = [M(gen.crec(m[0], "part")) for i, m in enumerate(ms)]          # e.g. variants filed under one accession
    else:
        from Bio.Seq import Seq as _Seq
        from moclo.record import CircularRecord as _CR
        ents = [M(_CR(_Seq(m[0]))) for i, m in enumerate(ms)]                  # records built without an id
    # (no pre-check of validity: if a well-formed plasmid is rejected the outcome comparison below reports it)
    o = asm.run_assemble(v, [ents[i] for i in perm])
    index_of = {id(e): i for i, e in enumerate(ents)}
    if model["kind"] == "product":
        outcome = "product"
        exp_seq = vup + vs[1] + "".join(mods[i][0] + ms[i][1] for i in model["chain"])
        if o.kind != "product":
            cause = "error-instead-of-product-" + str(o.exc_name)
            if o.exc_name == "DuplicateModules" and len(set(o.attrs.get("duplicates", []))) == 1:
                cause = "module-reported-as-duplicate-of-itself"
            st.violation("outcome", cause, scn, ["product", model["chain"], model["unused"]], o.brief())
        else:
            if not rm.same_circle(o.seq.upper(), exp_seq.upper()):
                st.violation("outcome", "wrong-product", scn, exp_seq, o.seq)
            unused_ix = sorted(model["unused"])
            got = [sorted(index_of.get(id(x), -1) for x in u) for u in o.attrs.get("unused_objs", [])]
            if unused_ix:
                if got != [unused_ix]:
                    st.violation("warning", "unused-modules-warning-wrong", scn, [unused_ix], got)
            elif got:
                st.violation("warning", "unused-modules-warning-spurious", scn, [], got)
    else:
        adm = model["admissible"]
        outcome = "error:" + "+".join(sorted(adm))
        if o.kind == "product":
            st.violation("outcome", "product-instead-of-" + "+".join(sorted(adm)), scn, sorted(adm), o.brief())
        elif o.kind == "timeout":
            st.violation("outcome", "nontermination", scn, sorted(adm), "timeout")
        elif o.kind == "internal-error":
            st.violation("outcome", "internal-error-" + o.exc_name, scn, sorted(adm), o.brief())
        else:
            name = o.exc_name
            if name == "IllegalSite":
                name = "InvalidSequence"
            if name not in adm:
                st.violation("outcome", "inadmissible-error-{}-expected-{}".format(name, "+".join(sorted(adm))), scn, sorted(adm), o.brief())
            elif name == "MissingModule":
                equal_starts = any(mods[i][0].upper() == mods[j][0].upper() for c in model["conflicts"] for i, j in [sorted(c)])
                if not equal_starts and o.attrs.get("start_overhang", "").upper() != model["stall"]:
                    st.violation("attrs", "missing-module-names-wrong-overhang", scn, model["stall"], o.attrs.get("start_overhang"))
            elif name == "DuplicateModules":
                d = o.attrs.get("duplicate_objs", [])
                pair = frozenset(index_of.get(id(x), -1) for x in d)
                if len(d) != 2 or pair not in model["conflicts"]:
                    st.violation("attrs", "duplicates-not-a-conflicting-pair", scn, sorted(sorted(c) for c in model["conflicts"]), sorted(pair))
    return model, outcome


def idmodes(sp, k):
    """identifier assignments of the module records: distinct ids everywhere; for the k<=2 spaces also one shared id and no id at all"""
    if sp["kmax"] <= 2 and k >= 2:
        return ["distinct", "same", "default", "decorated", "rotated", "anonymous", "foreign", "twins"]
    if sp["kmax"] <= 2:
        return ["distinct", "decorated", "rotated", "anonymous", "foreign"]
    if k >= 2:
        return ["distinct", "twins"]
    return ["distinct"]


def run_unit(unit, st, tier):
    si, vup, vdown = unit
    sp = bounds(tier)["spaces"][si]
    enz = sp["enz"]
    A = ALPHA[enz][: sp["words"]]
    types = [(s, e) for s in A for e in A]
    pals = set(w for w in A if w == rm.revcomp(w))
    for k in range(1, sp["kmax"] + 1):
        for multiset in itertools.combinations_with_replacement(range(len(types)), k):
            mods = [types[i] for i in multiset]
            modes = idmodes(sp, k)
            if k == 3 and several_left_over(vup, vdown, mods):
                modes = modes + ["same", "default"]       # the warning must name every left-over module, whatever their ids
                st.goal("several-unused-modules-sharing-an-id")
            for perm, idmode in [(pm, im) for pm in itertools.permutations(range(k)) for im in modes]:
                scn = dict(enz=enz, vup=vup, vdown=vdown, mods=[list(m) for m in mods], perm=list(perm))
                if idmode == "twins":
                    if len(set(mods)) == len(mods):
                        continue
                    scn["twins"] = "identical"
                    st.goal("identical-sequence-twins")
                elif idmode == "decorated":
                    scn["ids"] = idmode
                    st.goal("annotated-participants")
                elif idmode == "rotated":
                    scn["ids"] = idmode
                    st.goal("rotated-and-respelled-participants")
                elif idmode == "anonymous":
                    scn["ids"] = idmode
                    st.goal("anonymous-plasmids-of-equal-length")
                elif idmode == "foreign":
                    scn["ids"] = idmode
                    st.goal("module-of-another-enzyme-left-over")
                elif idmode != "distinct":
                    scn["ids"] = idmode
                    st.goal("records-sharing-an-id")
                r = evaluate(st, scn)
                if r is None:
                    continue
                model, outcome = r
                nontrivial = k >= 2 or model["kind"] == "error"
                if model["kind"] == "product":
                    st.goal("product")
                    onchain = [mods[i][0] for i in model["chain"]]
                    if any(w in pals for w in onchain):
                        st.goal("palindromic-start-on-chain")
                        nontrivial = True
                    if model["unused"]:
                        st.goal("unused-module")
                else:
                    for a in model["admissible"]:
                        st.goal("error-" + a)
                    if len(model["admissible"]) > 1:
                        st.goal("several-reasons")
                    for c in model["conflicts"]:
                        i, j = sorted(c)
                        st.goal("equal-starts" if mods[i][0] == mods[j][0] else "revcomp-starts")
                if any(s == e for s, e in mods):
                    st.goal("self-loop-module")
                if k == 3:
                    st.goal("three-modules")
                st.scenario(outcome, None)
                if nontrivial:
                    st.nontrivial += 1
                if k == 2 and perm == (1, 0) and len(st.samples) < 2 and model["kind"] == "product":
                    st.sample(scn)


def replay(scn, sub, st):
    evaluate(st, scn)
