"""C08 -- Annotations are inherited faithfully by the assembled plasmid.  (E1)

For every enzyme of the menu, k <= 2 and every participant in turn: the participant carries the COMPLETE
feature alphabet of its length (every simple (a, b, strand), the join menu incl. both origin-spanning
spellings, whole-length source / non-source) and is presented at EVERY rotation, with the rotated features
spelled three ways (past-the-end coordinates, join(tail, head), the library's own `>>`).  Thorough adds every
feature alone (BsaI) so that no verdict depends on features being processed together.
Oracle: position map of the retained fragment; features are compared through the nucleotides they denote.
"""
from .. import asm, gen, refmodel as rm, snapshot
from ..engine import HarnessError
from Bio.Seq import Seq
from moclo.record import CircularRecord

ID = "C08"
TITLE = "annotations are inherited faithfully"
RULE = ("one scenario per (enzyme, k, annotated participant, rotation, spelling, feature); counted per feature; non-trivial when "
        "the feature lies inside the retained fragment or touches its boundary within 1 nt; distinct by construction")
ASSUMPTIONS = [
    "features use exact positions; a strand-less location is compared as a set of nucleotides",
    "generated provenance features are recognised by type 'source' and a label starting with 'source: '",
]


def bounds(tier):
    return dict(enzymes=["BsaI", "BbsI", "FokI"] if tier == "quick" else "all enzyme geometries", k=[1, 2],
                features="all simple (a,b,strand in +,-,none) + join menu + whole-length, all on one record",
                rotations="all n of the annotated participant", spellings=["past-the-end", "join(tail,head)", "library >>"],
                singletons="not explored" if tier == "quick" else "BsaI k=1: every feature alone x every rotation (past-the-end spelling)")


def goals(tier):
    return ["feature-inherited", "feature-dropped-overlaps-discarded", "feature-touches-boundary-inside", "feature-crosses-boundary-by-one",
            "origin-inside-feature", "minus-strand-inherited", "join-inherited", "vector-feature-inherited", "module-feature-inherited",
            "zero-length-feature-inherited", "twin-features-differing-in-a-qualifier"]


# ---------------------------------------------------------------------------------------------

def respell(parts, n, r, spelling):
    """coordinates of a rotation-0 location after the record is rotated right by r"""
    out = []
    for (a, b, s) in parts:
        a2, b2 = a + r, b + r
        while a2 >= n:
            a2 -= n
            b2 -= n
        if b2 > n and spelling == "join":
            if s == -1:
                out += [(0, b2 - n, s), (a2, n, s)]
            else:
                out += [(a2, n, s), (0, b2 - n, s)]
        else:
            out.append((a2, b2, s))
    return out


def retained(base, which):
    """(fragment start in rotation-0 coordinates, fragment length, offset of the fragment in the constructive product)"""
    g = gen.geometry_of(gen.enzyme(base["enz"]))
    k = base["k"]
    if which == 0:
        return 0, g.ov + len(base["vbb"]), 0
    i = which - 1
    off = g.ov + len(base["vbb"])
    for j in range(i):
        off += g.ov + len(base["bodies"][j])
    return len(g.site) + g.off, g.ov + len(base["bodies"][i]), off


def canon(den):
    den = [tuple(d) for d in den]
    if all(d[1] in (None, 0) for d in den):
        return tuple(sorted(den, key=lambda d: (d[0], len(d))))
    return tuple(den)


def run_case(st, base, which, r, spelling, table, scn):
    enz, k = base["enz"], base["k"]
    M, V = gen.generic_classes(enz)
    vec, mods = asm.pieces_to_plasmids(base)
    strings = [vec] + mods
    s0 = strings[which]
    n = len(s0)
    fs, flen, off = retained(base, which)
    P = asm.constructive_product(base)
    # build the annotated participant at rotation r
    # two features that differ in a qualifier only (same type, same location, no label -- as plasmids curated with several tools
    # have them), inside the retained fragment when it is long enough: both must arrive
    twin_parts = [((fs + 1) % n, (fs + 1) % n + 2, 1)] if flen >= 4 and (fs + 1) % n + 2 <= n else None

    def twins(place):
        if twin_parts is None:
            return []
        return [gen.mk_feature(place(twin_parts), type="regulatory", fid="tw", qualifiers={"note": ["curated by " + who]}) for who in ("A", "B")]
    if spelling == "lib":
        feats = [gen.mk_feature(parts, type=typ, fid="f%d" % i) for i, (typ, parts) in table] + twins(lambda p_: p_)
        try:
            rec = CircularRecord(Seq(s0), id="ann", name="ann", features=feats) >> r
        except Exception as e:
            st.violation("assembly", "annotated-record-cannot-be-rotated-" + type(e).__name__, scn, "a record", str(e)[:200])
            return
    else:
        feats = []
        for i, (typ, parts) in table:
            p2 = respell(parts, n, r, spelling)
            if canon(rm.denoted(p2, n)) != canon(rm.rotate_denoted(rm.denoted(parts, n), n, r)):
                raise HarnessError("respelling changed the denoted nucleotides: {} {} {}".format(parts, r, p2))
            feats.append(gen.mk_feature(p2, type=typ, fid="f%d" % i))
        feats += twins(lambda p_: respell(p_, n, r, spelling))
        rec = CircularRecord(Seq(rm.rot_right(s0, r)), id="ann", name="ann", features=feats)
    ents = []
    for j, s in enumerate(strings):
        cls = V if j == 0 else M
        ents.append(cls(rec if j == which else gen.crec(s, "p%d" % j)))
    # a typed wrapper of the same plasmid at rotation 0 stays alive during the assembly
    alive = (V if which == 0 else M)(gen.crec(s0, "ann0"))
    alive.is_valid()
    o = asm.run_assemble(ents[0], ents[1:])
    if o.kind != "product":
        st.violation("assembly", "annotated-inputs-do-not-assemble", scn, "product", o.brief())
        return
    seq = o.seq
    N = len(P)
    dd = (seq + seq).find(P)
    if len(seq) != N or dd < 0:
        st.violation("assembly", "wrong-product", scn, P, seq)
        return
    # product index q corresponds to P index (q - dd) mod N
    exp = {}
    optional = set()
    for i, (typ, parts) in table:
        den = rm.denoted(parts, n)
        if len(den) == 1 and len(den[0]) == 3:
            # a zero-length feature marks the boundary in front of nucleotide p: inside the fragment when fs < p < fs+flen;
            # exactly on an edge of the fragment either answer is admissible
            p0, s0 = den[0][0], den[0][1]
            rel = (p0 - fs) % n
            st.evaluations += 1
            if 0 < rel < flen:
                exp["f%d" % i] = (typ, ((( off + rel) % N, s0, "^"),))
                st.goals["zero-length-feature-inherited"] += 1
                st.nontrivial += 1
            elif rel in (0, flen):
                optional.add("f%d" % i)
            continue
        inside = all(fs <= d[0] < fs + flen for d in den) and len(den) <= flen
        touch = False
        if inside:
            img = canon([((off + p - fs) % N, s) for p, s in den])
            exp["f%d" % i] = (typ, img)
            ps = [p for p, _ in den]
            if min(ps) == fs or max(ps) == fs + flen - 1:
                st.goals["feature-touches-boundary-inside"] += 1
                touch = True
            st.goals["feature-inherited"] += 1
            st.goals["vector-feature-inherited" if which == 0 else "module-feature-inherited"] += 1
            if any(s == -1 for _, s in den):
                st.goals["minus-strand-inherited"] += 1
            if len(parts) > 1:
                st.goals["join-inherited"] += 1
        else:
            st.goals["feature-dropped-overlaps-discarded"] += 1
            ps = set(p for p, _ in den)
            outside = [p for p in ps if not (fs <= p < fs + flen)]
            if len(outside) == 1:
                st.goals["feature-crosses-boundary-by-one"] += 1
                touch = True
        if r and any(((p + r) % n) == 0 for p, _ in den) and len(den) > 1:
            st.goals["origin-inside-feature"] += 1
        st.evaluations += 1
        if inside or touch:
            st.nontrivial += 1
    st.traces += len(table)
    st.states += 1
    st.transitions += 1 + len(table)
    got = {}
    tw_notes = []
    for f in o.record.features:
        if asm.is_generated_source(f):
            continue
        if f.type == "regulatory" and "label" not in f.qualifiers:
            tw_notes.append(asm.qual1(f, "note"))
            continue
        label = asm.qual1(f, "label")
        den = rm.denoted(snapshot.loc_parts(f.location), N)
        img = canon([(((d[0] - dd) % N, d[1]) if len(d) == 2 else ((d[0] - dd) % N, d[1], "^")) for d in den])
        if label in got:
            st.violation("features", "feature-duplicated-in-product", dict(scn, feature=label), 1, 2)
        got[label] = (f.type, img, f.qualifiers)
    for label, (typ, img) in exp.items():
        if label not in got:
            st.violation("features", "inside-feature-not-inherited", dict(scn, feature=label, parts=dict(table)[int(label[1:])][1]), list(img)[:6], None)
            continue
        gtyp, gimg, gq = got[label]
        if gimg != img:
            cause = "inherited-feature-denotes-other-nucleotides"
            if sorted(d[0] for d in gimg) == sorted(d[0] for d in img):
                cause = "inherited-feature-strand-or-order-changed"
            st.violation("features", cause, dict(scn, feature=label, parts=dict(table)[int(label[1:])][1]), list(img)[:8], list(gimg)[:8])
        elif gtyp != typ or snapshot._plain(dict(gq)) != snapshot._plain(dict(gen.qualifiers_for(label))):
            st.violation("features", "inherited-feature-type-or-qualifiers-changed", dict(scn, feature=label), [typ], [gtyp, dict(gq)])
    if twin_parts is not None:
        st.goal("twin-features-differing-in-a-qualifier")
        if sorted(tw_notes) != ["curated by A", "curated by B"]:
            st.violation("features", "one-of-two-features-that-differ-in-a-qualifier-only-is-lost", dict(scn, feature="twins", parts=[list(twin_parts[0])]),
                         ["curated by A", "curated by B"], sorted(tw_notes))
    for label in got:
        if label in optional:
            continue
        if label not in exp:
            st.violation("features", "feature-overlapping-discarded-region-kept", dict(scn, feature=label, parts=dict(table).get(int(label[1:]), [None, None])[1] if label[1:].isdigit() else None),
                         "dropped", list(got[label][1])[:8])
    st.outcomes["assembly-with-%s" % ("vector" if which == 0 else "module")] += 1


def units(tier):
    us = []
    enzs = ["BsaI", "BbsI", "FokI"] if tier == "quick" else [n for n, _ in gen.enzymes()]
    for enz in enzs:
        for k in (1, 2):
            for which in range(k + 1):
                for c in range(4):
                    us.append(("full", (enz, k, which, c)))
    if tier == "thorough":
        for which in (0, 1):
            for c in range(32):
                us.append(("single", ("BsaI", 1, which, c, 32)))
    return us


def run_unit(unit, st, tier):
    kind, arg = unit
    if kind == "full":
        enz, k, which, chunk = arg
        gen.prime(list(gen.generic_classes(enz)))
        base = asm.base_scenario(enz, k)
        if base is None or not asm.well_formed(base)[0]:
            st.filtered += 1
            return
        vec, mods = asm.pieces_to_plasmids(base)
        n = len(([vec] + mods)[which])
        table = list(enumerate(gen.feature_table(n)))
        for r in range(chunk, n, 4):
            for spelling in ("past", "join", "lib"):
                run_case(st, base, which, r, spelling, table, dict(mode="full", enz=enz, k=k, which=which, rotation=r, spelling=spelling))
        st.sample(dict(mode="full", enz=enz, k=k, which=which, rotation=1, spelling="join", features=len(table)))
    else:
        enz, k, which, c, nchunks = arg
        gen.prime(list(gen.generic_classes(enz)))
        base = asm.base_scenario(enz, k)
        vec, mods = asm.pieces_to_plasmids(base)
        n = len(([vec] + mods)[which])
        full = list(enumerate(gen.feature_table(n)))
        for item in full[c::nchunks]:
            for r in range(n):
                run_case(st, base, which, r, "past", [item], dict(mode="single", enz=enz, k=k, which=which, rotation=r, spelling="past", only=item[0]))
        st.sample(dict(mode="single", enz=enz, k=k, which=which, rotation=2, spelling="past", only=full[c][0]))


def replay(scn, sub, st):
    enz, k, which = scn["enz"], scn["k"], scn["which"]
    gen.prime(list(gen.generic_classes(enz)))
    base = asm.base_scenario(enz, k)
    vec, mods = asm.pieces_to_plasmids(base)
    n = len(([vec] + mods)[which])
    table = list(enumerate(gen.feature_table(n)))
    if scn.get("mode") == "single":
        table = [table[scn["only"]]]
    elif "feature" in scn and scn["feature"][1:].isdigit():
        pass
    run_case(st, base, which, scn["rotation"], scn["spelling"], table, {k_: v for k_, v in scn.items() if k_ not in ("feature", "parts")})
