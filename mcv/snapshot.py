"""Canonical, order-stable deep snapshots of SeqRecord objects (JSON-able)."""
import json

from . import refmodel as rm


def _plain(x):
    """Make any annotation/qualifier value JSON-able and order-stable."""
    from Bio.SeqFeature import Reference
    if isinstance(x, dict):
        return {"__dict__": sorted((str(k), _plain(v)) for k, v in x.items())}
    if isinstance(x, (list, tuple)):
        return [_plain(v) for v in x]
    if isinstance(x, Reference):
        return {"__ref__": [x.title, x.authors, x.journal, x.pubmed_id, x.medline_id, x.comment, x.consrtm,
                            [loc_parts(l) for l in (x.location or [])]]}
    if isinstance(x, (str, int, float, bool)) or x is None:
        return x
    return repr(x)


def loc_parts(loc):
    if loc is None:
        return None
    # (parts that lie on another record -- `ref` -- denote nothing on this one)
    return [(int(p.start), int(p.end), p.strand) for p in loc.parts if not (getattr(p, "ref", None) or getattr(p, "ref_db", None))]


def feature_snapshot(f, n, with_denoted=True):
    parts = loc_parts(f.location)
    d = dict(type=f.type, id=f.id, parts=parts, qualifiers=_plain(dict(f.qualifiers)))
    if with_denoted and parts is not None and n:
        d["denoted"] = rm.denoted(parts, n)
    return d


def record_snapshot(rec, absent_refs_is_empty=True):
    """Everything C07 lists: sequence, identifiers, features, qualifiers, annotations, references."""
    n = len(rec.seq)
    ann = dict(rec.annotations)
    if absent_refs_is_empty and not ann.get("references"):
        ann.pop("references", None)
    return dict(
        seq=str(rec.seq), id=rec.id, name=rec.name, description=rec.description,
        dbxrefs=list(rec.dbxrefs),
        features=[feature_snapshot(f, n, with_denoted=False) for f in rec.features],
        annotations=_plain(ann),
        letter_annotations=_plain(dict(rec.letter_annotations)),
        cls=type(rec).__name__,
    )


def key(snap):
    return json.dumps(snap, sort_keys=True, default=str)


def diff(a, b, path=""):
    """First difference between two snapshots, as a short string."""
    if type(a) != type(b):
        return "{}: {!r} != {!r}".format(path, a, b)
    if isinstance(a, dict):
        for k in sorted(set(a) | set(b)):
            if k not in a or k not in b:
                return "{}.{}: missing on one side".format(path, k)
            d = diff(a[k], b[k], path + "." + str(k))
            if d:
                return d
        return None
    if isinstance(a, list):
        if len(a) != len(b):
            return "{}: length {} != {}".format(path, len(a), len(b))
        for i, (x, y) in enumerate(zip(a, b)):
            d = diff(x, y, "{}[{}]".format(path, i))
            if d:
                return d
        return None
    return None if a == b else "{}: {!r} != {!r}".format(path, a, b)
