"""Exploration engine: statistics, sharding over processes, watchdog, E2 BFS helper."""
import collections
import hashlib
import json
import multiprocessing
import os
import signal
import time
import traceback


class ScenarioTimeout(BaseException):
    """Raised by the watchdog inside a real call that does not terminate."""


class HarnessError(Exception):
    """A fault of the machinery (never of moclo)."""


class AbortUnit(BaseException):
    """Too many real calls of this unit did not terminate: stop the unit (recorded as a cap), keep its violations."""


def fingerprint(prop, sub, cause):
    return "{}/{}/{}".format(prop, sub, cause)


def fp_file(fp):
    h = hashlib.sha1(fp.encode()).hexdigest()[:10]
    safe = "".join(c if c.isalnum() or c in "-_." else "_" for c in fp.split("/", 1)[1])
    return "{}-{}.json".format(safe[:60], h)


class Stats(object):
    """Counters of one unit of work; merged by the parent."""

    MAX_SAMPLES = 3

    def __init__(self, prop):
        self.prop = prop
        self.states = 0          # nodes of the choice tree / distinct canonical states
        self.transitions = 0     # edges + real API calls
        self.evaluations = 0     # complete scenarios
        self.traces = 0          # model traces compared with the implementation
        self.filtered = 0        # base points rejected by a precondition
        self.nontrivial = 0      # distinct non-trivial scenarios (by the check's rule)
        self.outcomes = collections.Counter()
        self.goals = collections.Counter()
        self.samples = []
        self.violations = {}     # fingerprint -> first violation
        self.vcount = collections.Counter()
        self.caps = []
        self.extra = collections.Counter()
        self._seen = set()

    # -- recording -------------------------------------------------------------------
    def scenario(self, outcome, nontrivial_key=None, traces=1, calls=1, nodes=1):
        """One complete scenario evaluated."""
        self.evaluations += 1
        self.traces += traces
        self.transitions += calls + nodes
        self.states += nodes
        self.outcomes[outcome] += 1
        if nontrivial_key is not None and nontrivial_key not in self._seen:
            self._seen.add(nontrivial_key)
            self.nontrivial += 1

    def goal(self, name, k=1):
        self.goals[name] += k

    def sample(self, scn):
        if len(self.samples) < self.MAX_SAMPLES:
            self.samples.append(scn)

    def violation(self, sub, cause, scenario, expected, observed, note=""):
        fp = fingerprint(self.prop, sub, cause)
        self.vcount[fp] += 1
        if fp not in self.violations:
            self.violations[fp] = dict(property=self.prop, sub=sub, cause=cause, fingerprint=fp,
                                       scenario=scenario, expected=_j(expected), observed=_j(observed),
                                       note=note)

    # -- merging ---------------------------------------------------------------------
    def merge(self, o):
        self.states += o.states
        self.transitions += o.transitions
        self.evaluations += o.evaluations
        self.traces += o.traces
        self.filtered += o.filtered
        self.nontrivial += o.nontrivial
        self.outcomes.update(o.outcomes)
        self.goals.update(o.goals)
        self.extra.update(o.extra)
        self.vcount.update(o.vcount)
        self.caps.extend(o.caps)
        for fp, v in o.violations.items():
            if fp not in self.violations or _size(v) < _size(self.violations[fp]):
                self.violations[fp] = v
        self.samples.extend(o.samples)


def _size(v):
    return len(json.dumps(v["scenario"], sort_keys=True, default=str))


def _j(x):
    try:
        json.dumps(x)
        return x
    except TypeError:
        return repr(x)


# -- watchdog ----------------------------------------------------------------------------

WATCHDOG_S = float(os.environ.get("MCV_WATCHDOG_S", "5"))
MAX_TIMEOUTS_PER_UNIT = 3
_timeouts = [0]


def note_timeout():
    _timeouts[0] += 1
    if _timeouts[0] >= MAX_TIMEOUTS_PER_UNIT:
        raise AbortUnit()


def _on_alarm(signum, frame):
    raise ScenarioTimeout()


class watch(object):
    """with watch(): real_call()  -- raises ScenarioTimeout after WATCHDOG_S seconds."""

    def __init__(self, seconds=None):
        self.seconds = seconds or WATCHDOG_S

    def __enter__(self):
        signal.signal(signal.SIGALRM, _on_alarm)
        signal.setitimer(signal.ITIMER_REAL, self.seconds)

    def __exit__(self, *a):
        signal.setitimer(signal.ITIMER_REAL, 0)
        return False


# -- parallel driver ---------------------------------------------------------------------

_CHECK = None
_TIER = None


def _run_unit(args):
    idx, unit = args
    st = Stats(_CHECK.ID)
    t0 = time.time()
    _timeouts[0] = 0
    try:
        _CHECK.run_unit(unit, st, _TIER)
    except AbortUnit:
        st.caps.append("unit {} stopped after {} non-terminating calls".format(idx, MAX_TIMEOUTS_PER_UNIT))
    except ScenarioTimeout:
        st.violation("watchdog", "nontermination-in-unit", dict(unit=_j(unit)), "termination", "timeout")
    except HarnessError as e:
        return idx, st, ("HARNESS-ERROR", str(e), traceback.format_exc())
    except Exception as e:  # an escaped exception in harness code is a harness fault
        return idx, st, ("HARNESS-ERROR", "{}: {}".format(type(e).__name__, e), traceback.format_exc())
    for v in st.violations.values():
        v["unit"] = _j(unit)
        v["tier"] = _TIER
    return idx, st, (None, time.time() - t0, None)


def explore(check, tier, jobs=None, seed=0, progress=False):
    """Run every unit of `check` for `tier`; returns merged Stats and a list of harness errors."""
    global _CHECK, _TIER
    _CHECK, _TIER = check, tier
    units = list(check.units(tier))
    order = list(range(len(units)))
    if seed:
        # rotate the enumeration order only; the explored set is unchanged
        k = seed % max(1, len(order))
        order = order[k:] + order[:k]
    work = [(i, units[i]) for i in order]
    total = Stats(check.ID)
    errors = []
    jobs = jobs or int(os.environ.get("MCV_JOBS", "0")) or min(16, os.cpu_count() or 1)
    t0 = time.time()
    slow = []
    if jobs == 1 or len(work) <= 1:
        results = map(_run_unit, work)
        pool = None
    else:
        ctx = multiprocessing.get_context("fork")
        # every unit runs in a newly forked child of this (idle) parent: what a unit observes can only depend on
        # the scenarios of that unit, which makes "replay the whole unit" a complete history
        pool = ctx.Pool(min(jobs, len(work)), maxtasksperchild=1)
        results = pool.imap_unordered(_run_unit, work, chunksize=1)
    done = 0
    by_idx = {}
    try:
        for idx, st, (err, msg, tb) in results:
            done += 1
            by_idx[idx] = st
            if err:
                errors.append((idx, msg, tb))
            else:
                slow.append((msg, idx))
            if progress and done % max(1, len(work) // 20) == 0:
                print("  .. {}/{} units {:.0f}s".format(done, len(work), time.time() - t0), flush=True)
    finally:
        if pool is not None:
            pool.close()
            pool.join()
    for idx in sorted(by_idx):          # canonical merge order: simplest first
        total.merge(by_idx[idx])
    total.extra["units"] = len(units)
    slow.sort(reverse=True)
    total.slowest = slow[:3]
    return total, errors


# -- E2: explicit-state BFS over histories -----------------------------------------------

def bfs(initial_hist, enabled, build, canon, depth, on_edge):
    """Explicit-state search where a state is represented by the history reaching it.

    build(hist) -> live state rebuilt on fresh objects by replaying hist through the real code
    canon(state) -> hashable canonical form
    enabled(hist, state) -> iterable of operations
    on_edge(hist, op, state_after) is called for every transition (oracle lives there)
    Returns (n_states, n_transitions, max_depth, closed) -- closed is True when the frontier
    emptied before the depth bound cut it.
    """
    s0 = build(list(initial_hist))
    seen = {canon(s0)}
    frontier = collections.deque([list(initial_hist)])
    ntrans = 0
    maxd = 0
    closed = True
    while frontier:
        hist = frontier.popleft()
        state = build(hist)
        for op in enabled(hist, state):
            nh = hist + [op]
            ns = build(nh)
            ntrans += 1
            on_edge(hist, op, ns)
            k = canon(ns)
            if k not in seen:
                seen.add(k)
                maxd = max(maxd, len(nh))
                if len(nh) < depth:
                    frontier.append(nh)
                else:
                    closed = False
    return len(seen), ntrans, maxd, closed


def isolated(fn, *args):
    """Run fn(*args) in a forked child of this process and return its (picklable) result.
    Used where a scenario must start from a state no earlier scenario can have touched."""
    import pickle
    r, w = os.pipe()
    pid = os.fork()
    if pid == 0:
        code = 0
        try:
            os.close(r)
            try:
                out = ("ok", fn(*args))
            except BaseException as e:  # noqa
                out = ("error", "{}: {}".format(type(e).__name__, e), traceback.format_exc())
            with os.fdopen(w, "wb") as f:
                pickle.dump(out, f)
        except BaseException:
            code = 1
        finally:
            os._exit(code)
    os.close(w)
    with os.fdopen(r, "rb") as f:
        data = f.read()
    os.waitpid(pid, 0)
    if not data:
        raise HarnessError("isolated child died without a result")
    out = pickle.loads(data)
    if out[0] == "error":
        raise HarnessError("isolated child failed: " + out[1] + "\n" + out[2])
    return out[1]
