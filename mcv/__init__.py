"""Bounded exhaustive model checking machinery for althonos/moclo (see /verif/DESIGN.md)."""
