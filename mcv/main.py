"""./mc check <ID> [--tier quick|thorough] [--replay FILE] [--jobs N] [--quiet]
   ./mc selftest
   ./mc list
"""
import argparse
import importlib
import json
import os
import sys
import time

from . import engine, report


def load_check(pid):
    return importlib.import_module("mcv.checks.{}".format(pid.lower()))


def cmd_check(a):
    tier = a.tier or os.environ.get("VERIF_TIER") or "quick"
    if tier not in ("quick", "thorough"):
        tier = "quick"
    try:
        seed = int(os.environ.get("VERIF_SEED", "0"))
    except ValueError:
        seed = 0
    from . import selftest
    t0 = time.time()
    try:
        selftest.run(quiet=True)
    except Exception as e:
        print("HARNESS-ERROR selftest failed: {}: {}".format(type(e).__name__, e))
        return 2
    check = load_check(a.id)

    if a.replay:
        with open(a.replay) as f:
            v = json.load(f)
        st = engine.Stats(check.ID)
        if v.get("replay_mode") == "unit":
            # the scenario alone did not reproduce: what it shows depends on the scenarios executed before it in its unit,
            # so the whole unit (a deterministic sequence of scenarios in a fresh process) is the replayed history
            unit = v["unit"]
            unit = tuple(tuple(x) if isinstance(x, list) else x for x in unit) if isinstance(unit, list) else unit
            if hasattr(check, "units"):
                for u in check.units(v.get("tier", "quick")):
                    if engine._j(u) == v["unit"] or json.loads(json.dumps(u)) == v["unit"]:
                        unit = u
                        break
            check.run_unit(unit, st, v.get("tier", "quick"))
            hit = [x for fp, x in st.violations.items() if fp == v["fingerprint"]]
        else:
            check.replay(v["scenario"], v["sub"], st)
            hit = [x for x in st.violations.values()]
        if not a.quiet:
            print("replay of {} [{}]".format(a.replay, v.get("fingerprint")))
            print(" scenario:", json.dumps(v["scenario"], sort_keys=True))
        for x in hit:
            if not a.quiet:
                print(" expected:", json.dumps(x["expected"], default=str)[:2000])
                print(" observed:", json.dumps(x["observed"], default=str)[:2000])
            print("VIOLATION property={} replay={}".format(check.ID, os.path.abspath(a.replay)))
        if not hit and not a.quiet:
            print(" scenario holds on the current tree")
        return 1 if hit else 0

    st, errors = engine.explore(check, tier, jobs=a.jobs, seed=seed, progress=a.progress)
    wall = time.time() - t0
    known = report.load_known()
    rc = 0
    lines = []
    # violations
    new = 0
    for fp in sorted(st.violations):
        v = st.violations[fp]
        v["count"] = st.vcount[fp]
        if fp in known:
            lines.append("KNOWN-FINDING: property={} {} [{} scenario(s); {}]".format(
                check.ID, known[fp]["what"], st.vcount[fp], fp))
            continue
        path = report.write_replay(v)
        ok, out = report.reproduces(check.ID, path)
        if not ok and v.get("unit") is not None:
            v["replay_mode"] = "unit"
            v["note"] = (v.get("note", "") + " | the scenario alone does not reproduce; it depends on the scenarios executed before it "
                         "in its unit, so the replay re-executes the whole unit in a fresh process").strip(" |")
            path = report.write_replay(v)
            ok, out = report.reproduces(check.ID, path)
        if not ok:
            errors.append((-1, "unreproducible alarm {} (replay said: {})".format(fp, out[-300:]), ""))
            continue
        new += 1
        lines.append("VIOLATION property={} replay={}".format(check.ID, path))
        lines.append("  # {} x{}: expected {} observed {}".format(
            fp, st.vcount[fp], json.dumps(v["expected"], default=str)[:300], json.dumps(v["observed"], default=str)[:300]))
    # vacuity guards (model side only)
    missed = [g for g in check.goals(tier) if st.goals.get(g, 0) == 0]
    if missed and not new:
        errors.append((-1, "coverage goals missed: {}".format(", ".join(missed)), ""))
    elif missed:
        # goals are meant to be decided on the model side only; where one is reached only after the implementation
        # answered, a violating implementation can starve it -- the violation already explains the run
        lines.append("  # note: coverage goals not reached in this violating run: {}".format(", ".join(missed)))
    space = check.space_size(tier) if hasattr(check, "space_size") else None
    exhaustive = not st.caps and not errors
    if space is not None and space != st.evaluations + st.filtered:
        exhaustive = False
        if not st.caps and not new:
            errors.append((-1, "enumerated {} + filtered {} != independently computed space size {}".format(
                st.evaluations, st.filtered, space), ""))
        else:
            lines.append("  # note: {} of {} scenarios enumerated (units stopped early: {})".format(st.evaluations + st.filtered, space, len(st.caps)))
    extra = dict(bounds=check.bounds(tier), exhaustive=exhaustive,
                 distinct_violation_fingerprints=len(st.violations))
    if space is not None:
        extra["space_size"] = space
    extra.update(getattr(check, "extra_coverage", lambda tier, st: {})(tier, st))
    path = report.write_evidence(check, tier, seed, st, wall, extra, new)
    okv, msg = report.validate_evidence(path)
    if not okv:
        errors.append((-1, "evidence does not validate: " + msg, ""))
    print("{} {} tier={} seed={} units={} states={} transitions={} scenarios={} traces={} filtered={} "
          "nontrivial={} outcomes={} wall={:.1f}s".format(
              check.ID, check.TITLE, tier, seed, st.extra.get("units"), st.states, st.transitions,
              st.evaluations, st.traces, st.filtered, st.nontrivial, len(st.outcomes), wall))
    if a.progress:
        print("  outcomes:", dict(st.outcomes))
        print("  goals:", dict(st.goals))
        print("  slowest units:", getattr(st, "slowest", None))
    for ln in lines:
        print(ln)
    if errors:
        for idx, msg, tb in errors[:5]:
            print("HARNESS-ERROR {} unit={} {}".format(check.ID, idx, msg))
            if tb and (a.progress or True):
                sys.stderr.write(tb)
        return 2
    return 1 if new else 0


def main(argv=None):
    p = argparse.ArgumentParser(prog="mc")
    sub = p.add_subparsers(dest="cmd")
    c = sub.add_parser("check")
    c.add_argument("id")
    c.add_argument("--tier")
    c.add_argument("--replay")
    c.add_argument("--jobs", type=int)
    c.add_argument("--quiet", action="store_true")
    c.add_argument("--progress", action="store_true")
    sub.add_parser("selftest")
    sub.add_parser("list")
    a = p.parse_args(argv)
    if a.cmd == "check":
        return cmd_check(a)
    if a.cmd == "selftest":
        from . import selftest
        selftest.run(quiet=False)
        print("selftest ok")
        return 0
    if a.cmd == "list":
        d = os.path.join(os.path.dirname(__file__), "checks")
        for f in sorted(os.listdir(d)):
            if f.startswith("c") and f.endswith(".py"):
                print(f[:-3].upper())
        return 0
    p.print_help()
    return 2


if __name__ == "__main__":
    sys.exit(main())
