"""Import moclo from the working tree (MOCLO_ROOT, default /repo) exactly as tests/__init__.py does.

Nothing is installed; nothing is written into the repository (no bytecode, no archives).
Embedded registry archives are rebuilt from moclo-*/registry/<kit>/*.gb into a scratch
directory (same recipe as each kit's setup.py build_ext: a gzip tar of the sorted .gb files
with the file stem as member name) and the registry modules are loaded from copies placed
next to the fresh archives.
"""
import atexit
import glob
import os
import shutil
import sys
import tarfile
import tempfile
import warnings

sys.dont_write_bytecode = True
warnings.filterwarnings("ignore", message="pkg_resources is deprecated")
warnings.filterwarnings("ignore", category=DeprecationWarning)

ROOT = os.path.abspath(os.environ.get("MOCLO_ROOT", "/repo"))
KITS = ["cidar", "ytk", "ecoflex", "moclo", "plant"]
REGISTRY_ARCHIVES = {  # kit dir -> archives its setup.py declares
    "cidar": ["cidar"],
    "ytk": ["ytk", "ptk"],
    "ecoflex": ["ecoflex"],
    "plant": ["plant"],
}

_scratch = None
_owner_pid = None


def scratch_dir():
    """Per-run scratch directory outside /repo and /verif, removed when the creating process exits."""
    global _scratch, _owner_pid
    if _scratch is None:
        _scratch = tempfile.mkdtemp(prefix="mcv-")
        _owner_pid = os.getpid()
        atexit.register(_cleanup)
    return _scratch


def _cleanup():
    if _scratch and os.getpid() == _owner_pid:
        shutil.rmtree(_scratch, ignore_errors=True)


sys.path.insert(0, os.path.join(ROOT, "moclo"))
os.environ.setdefault("MOCLO_VERIF", "1")

import moclo  # noqa: E402
import moclo.kits  # noqa: E402
import moclo.registry  # noqa: E402

for _k in KITS:
    _d = os.path.join(ROOT, "moclo-{}".format(_k), "moclo", "kits")
    if _d not in moclo.kits.__path__:
        moclo.kits.__path__.append(_d)

assert os.path.abspath(moclo.__file__).startswith(ROOT), moclo.__file__

_registries_ready = False


def build_registries():
    """Rebuild the embedded archives from the working tree and make moclo.registry.<kit> importable."""
    global _registries_ready
    if _registries_ready:
        return
    dst = os.path.join(scratch_dir(), "registry")
    os.makedirs(dst, exist_ok=True)
    for kit, archives in REGISTRY_ARCHIVES.items():
        kdir = os.path.join(ROOT, "moclo-{}".format(kit))
        for py in glob.glob(os.path.join(kdir, "moclo", "registry", "*.py")):
            shutil.copy(py, dst)
        for name in archives:
            srcs = sorted(glob.glob(os.path.join(kdir, "registry", name, "*.gb")))
            with tarfile.open(os.path.join(dst, name + ".tar.gz"), mode="w:gz") as tar:
                for gb in srcs:
                    arc, _ = os.path.splitext(os.path.basename(gb))
                    tar.add(gb, arcname=arc)
    moclo.registry.__path__.append(dst)
    _registries_ready = True


def registry_sources():
    """{archive name: {stem: path of .gb}} straight from the working tree (ground truth for C20)."""
    out = {}
    for kit, archives in REGISTRY_ARCHIVES.items():
        for name in archives:
            d = os.path.join(ROOT, "moclo-{}".format(kit), "registry", name)
            out[name] = {os.path.splitext(os.path.basename(p))[0]: p for p in sorted(glob.glob(os.path.join(d, "*.gb")))}
    return out
